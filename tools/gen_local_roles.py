#!/usr/bin/env python3
"""Record, for every user variable a rule finds by name, its rename-independent signature (rules/local_roles.json).
Run on the audited tree after changing a rule that uses named_local()."""
import json
import os
import subprocess
import sys
import tempfile

VERIF = os.path.dirname(os.path.dirname(os.path.abspath(__file__)))
roles = {}
ev = tempfile.mkdtemp(prefix='rsm-ev-', dir='/tmp')
for i in range(1, 21):
    c = f'C{i:02d}'
    r = subprocess.run([os.path.join(VERIF, 'check'), c], env=dict(os.environ, VERIF_TRACE_NAMED='1', VERIF_EVIDENCE_DIR=ev), stdout=subprocess.PIPE, stderr=subprocess.PIPE, text=True)
    for line in r.stderr.splitlines():
        if line.startswith('NAMED '):
            d = json.loads(line[6:])
            cur = roles.setdefault(d['k'], [])
            for s in d['sigs']:
                if s not in cur:
                    cur.append(s)
subprocess.run(['rm', '-rf', ev])
json.dump(roles, open(os.path.join(VERIF, 'rules', 'local_roles.json'), 'w'), indent=1, sort_keys=True)
print(len(roles), 'roles recorded')
