#!/usr/bin/env python3
"""Regenerate the "which check catches which seeded change" table of DESIGN.md (between the SEED-TABLE markers)
from seeded/*/meta.json (written by tools/seed_import.py and tools/seed_detect.py)."""
import json
import os
import re

VERIF = os.path.dirname(os.path.dirname(os.path.abspath(__file__)))


def main():
    sroot = os.path.join(VERIF, 'seeded')
    rows = []
    for sid in sorted(os.listdir(sroot)):
        mp = os.path.join(sroot, sid, 'meta.json')
        if not os.path.exists(mp):
            continue
        m = json.load(open(mp))
        det = m.get('detected_by', {})
        rep = det.get('reporting', {})
        own = m['breaks_property']
        if 'error' in det:
            verdict = 'patch no longer applies (the fixed tree removed the code it edits)'
        elif rep:
            parts = []
            for c in sorted(rep, key=lambda c: (c != own, c)):
                v = rep[c]['violations']
                parts.append(f"**{c}**: " + ('; '.join(x.replace('|', '/') for x in v[:2]) if v else 'anchor / guard missing'))
            verdict = '<br>'.join(parts)
        elif det:
            verdict = 'not caught' + (': ' + m['missed_reason'] if m.get('missed_reason') else '')
        else:
            verdict = '(checks not run yet)'
        if det.get('no_longer_applies_at'):
            verdict += f"<br>(last run at {det.get('repo_head')}; the patch no longer applies at {det['no_longer_applies_at']}: a later fix rewrote the lines it edits)"
        summ = (m.get('summary') or '').replace('|', '/').replace('\n', ' ')
        if len(summ) > 260:
            summ = summ[:257] + '...'
        rows.append(f"| {sid} | {own} | {summ} | {verdict} |")
    n = len(rows)
    caught = sum(1 for r in rows if '**C' in r)
    tbl = [f"{n} seeded changes kept (each confirmed: demonstration passes on the clean tree, fails with the patch, patch alone passes the 705 tests); "
           f"{caught} reported by at least one check.", '',
           '| seed | breaks | change | reported by (violated obligation) |', '|---|---|---|---|'] + rows
    rj = os.path.join(sroot, 'REJECTED.json')
    if os.path.exists(rj):
        r = json.load(open(rj))
        if r:
            tbl += ['', 'Not kept (failed one of my three confirmations): ' + ', '.join(
                f"{k} ({'does not apply' if not (v.get('patch_applies') and v.get('demo_applies')) else 'demo does not pass on clean tree' if not v.get('a_clean_demo_passes') else 'demo does not fail with patch' if not v.get('b_patched_demo_fails') else 'baseline fails with patch'})"
                for k, v in sorted(r.items())) + '.']
    p = os.path.join(VERIF, 'DESIGN.md')
    s = open(p).read()
    b, e = '<!-- SEED-TABLE-BEGIN -->', '<!-- SEED-TABLE-END -->'
    if b not in s:
        raise SystemExit('markers missing in DESIGN.md')
    s = re.sub(re.escape(b) + '.*?' + re.escape(e), lambda _: b + '\n' + '\n'.join(tbl) + '\n' + e, s, flags=re.S)
    open(p, 'w').write(s)
    print(f'{n} seeds, {caught} caught')


if __name__ == '__main__':
    main()
