#!/usr/bin/env python3
"""Regenerate the per-check table of DESIGN.md section 10.2 from evidence/*.json (between the CHECK-TABLE markers)."""
import json, os, re
V = os.path.dirname(os.path.dirname(os.path.abspath(__file__)))
rows = ['| id | obligations | functions | decided (from the check\'s own `coverage.clauses_decided`) | not decided |',
        '|----|------------:|----------:|---|---|']
for i in range(1, 21):
    c = f'C{i:02d}'
    e = json.load(open(os.path.join(V, 'evidence', c + '.json')))
    cov = e['coverage']
    esc = lambda s: s.replace('|', '\\|')
    rows.append(f"| {c} | {cov['obligations']} | {len(cov['functions_analysed'])} | " + '<br>'.join(esc(x) for x in cov['clauses_decided'])
                + ' | ' + '; '.join(esc(x) for x in cov['clauses_not_decided']) + ' |')
p = os.path.join(V, 'DESIGN.md')
s = open(p).read()
new = '<!-- CHECK-TABLE-BEGIN -->\n' + '\n'.join(rows) + '\n<!-- CHECK-TABLE-END -->'
assert '<!-- CHECK-TABLE-BEGIN -->' in s
s = re.sub(r'<!-- CHECK-TABLE-BEGIN -->.*?<!-- CHECK-TABLE-END -->', lambda m: new, s, flags=re.S)
open(p, 'w').write(s)
print('rows', len(rows) - 2)
