import sys,json; sys.path.insert(0,'/verif/rules')
from facts import Facts
import glob,os,collections,p7
import extract
F=Facts(extract.ensure_facts('q')[0])
import importlib
sets=json.load(open('/verif/rules/p7_sets.json'))
REASONS=json.load(open('/verif/rules/p7_reasons.json'))   # list of [fn-substring, kind-substring, reason]
aud={}
guards={}
missing=[]
for prop,spec in sets.items():
    prefs,excl=spec[0],spec[1]; contains=spec[2] if len(spec)>2 else []
    for b in sorted(F.bodies.values(),key=lambda x:x.fn):
        if not b.focus or any(e in b.fn for e in excl): continue
        if not (b.fn.lstrip('<').startswith(tuple(prefs)) or any(c in b.fn for c in contains)): continue
        ss=p7.sites_of(b)
        lp=[s for s in ss if s.kind=='panic' and p7.discharge(F,s) is None]
        keys=[s.key() for s in ss if s.kind!='panic' and p7.discharge(F,s) is None]
        if lp: keys.append(f"{b.fn}|panic|x{len(lp)}")
        sitemap={s.key():s for s in ss if s.kind!='panic'}
        for k in keys:
            if k in sitemap:
                lb=p7.length_lower_bounds(b, sitemap[k].bb)
                if lb: guards[k]=lb
            r=None
            for fsub,ksub,reason in REASONS:
                if fsub in k.split('|')[0] and ksub in '|'.join(k.split('|')[1:]):
                    r=reason; break
            if r: aud[k]=r
            else: missing.append(k)
json.dump(aud,open('/verif/rules/p7_audited.json','w'),indent=1,sort_keys=True)
json.dump({k:v for k,v in guards.items() if k in aud},open('/verif/rules/p7_guards.json','w'),indent=1,sort_keys=True)
print(len([k for k in guards if k in aud]),'audited entries rest on a recorded length guard')
print(len(aud),'audited;',len(missing),'without a reason')
for m in missing: print('  ',m)
