#!/usr/bin/env python3
"""Self-test of the rules (not a registered check): apply hand-written mutants
(engine/mutants/*.json) to a scratch copy of /repo outside /repo and /verif,
extract facts once per batch, and assert that each mutant is reported by the
named property check with the expected obligation key.

usage: mutest.py [--only name,name] [--props C01,C02] [--keep]
Mutants in one batch must touch different functions; a batch = all selected
mutants whose 'batch' value is equal (default 0)."""
import glob
import json
import os
import shutil
import subprocess
import sys
import tempfile

VERIF = os.path.dirname(os.path.dirname(os.path.abspath(__file__)))


def main():
    only = None
    props = None
    keep = '--keep' in sys.argv
    for i, a in enumerate(sys.argv):
        if a == '--only':
            only = set(sys.argv[i + 1].split(','))
        if a == '--props':
            props = set(sys.argv[i + 1].split(','))
    muts = []
    for f in sorted(glob.glob(os.path.join(VERIF, 'engine', 'mutants', '*.json'))):
        for m in json.load(open(f)):
            if only and m['name'] not in only:
                continue
            if props and not (set(m['props']) & props):
                continue
            muts.append(m)
    batches = {}
    for m in muts:
        batches.setdefault(m.get('batch', 0), []).append(m)
    fails = 0
    for bid, ms in sorted(batches.items()):
        tmp = tempfile.mkdtemp(prefix='rsm-mut-', dir='/tmp')
        try:
            subprocess.check_call(['rsync', '-a', '--exclude', 'target', '--exclude', '.git', '/repo/', tmp + '/'])
            for m in ms:
                for e in m['edits']:
                    p = os.path.join(tmp, e['file'])
                    s = open(p).read()
                    if s.count(e['old']) != 1:
                        print(f"MUTANT-ERROR {m['name']}: pattern occurs {s.count(e['old'])} times in {e['file']}")
                        fails += 1
                        continue
                    open(p, 'w').write(s.replace(e['old'], e['new']))
            pset = sorted({p for m in ms for p in m['props']})
            outs = {}
            evd = tempfile.mkdtemp(prefix='rsm-ev-', dir='/tmp')
            for p in pset:
                env = dict(os.environ, VERIF_REPO=tmp, VERIF_EVIDENCE_DIR=evd, VERIF_CACHE_KEEP='6')
                r = subprocess.run([os.path.join(VERIF, 'check'), p], env=env, stdout=subprocess.PIPE, stderr=subprocess.STDOUT, text=True)
                outs[p] = (r.returncode, r.stdout)
            shutil.rmtree(evd, ignore_errors=True)
            for m in ms:
                for p in m['props']:
                    rc, out = outs[p]
                    hit = all(x in out for x in m['expect']) and f'VIOLATION property={p}' in out
                    print(f"{'CAUGHT ' if hit else 'MISSED '} {m['name']} by {p} (rc={rc})")
                    if not hit:
                        fails += 1
                        print('\n'.join('      ' + l for l in out.splitlines()[-25:]))
            # unexpected extra violations in this batch?
            for p in pset:
                rc, out = outs[p]
                exp = [x for m in ms if p in m['props'] for x in m['expect']]
                for l in out.splitlines():
                    if l.strip().startswith('violated:') and not any(x in l or x in out[out.index(l):out.index(l) + 600] for x in exp):
                        print(f"   note: extra report in {p}: {l.strip()[:160]}")
        finally:
            if not keep:
                shutil.rmtree(tmp, ignore_errors=True)
            else:
                print('kept', tmp)
    print('mutest:', 'OK' if not fails else f'{fails} problem(s)')
    return 1 if fails else 0


if __name__ == '__main__':
    sys.exit(main())
