#!/usr/bin/env python3
"""Regenerate /verif/MANIFEST.json from the rule modules' own metadata."""
import importlib
import json
import os
import sys

VERIF = os.path.dirname(os.path.dirname(os.path.abspath(__file__)))
sys.path.insert(0, os.path.join(VERIF, 'rules'))

props = [json.loads(l) for l in open(os.path.join(VERIF, 'properties.jsonl'))]
na_path = os.path.join(VERIF, 'tools', 'not_applicable.json')
NA = json.load(open(na_path)) if os.path.exists(na_path) else {}

checks = []
not_app = []
for p in props:
    pid = p['id']
    modp = os.path.join(VERIF, 'rules', pid + '.py')
    if not os.path.exists(modp) or pid in NA:
        not_app.append({'property_id': pid, 'reason': NA.get(pid, 'rules for this property are not built yet; no check is claimed')})
        continue
    m = importlib.import_module(pid)
    clauses = getattr(m, 'CLAUSES', [])
    nd = getattr(m, 'NOT_DECIDED', [])
    checks.append({
        'property_id': pid,
        'quick_cmd': f'./check {pid} --tier quick',
        'thorough_cmd': f'./check {pid} --tier thorough',
        'evidence_file': f'evidence/{pid}.json',
        'replay_cmd_template': f'./check {pid} --replay {{path}}',
        'engine': 'rsm-facts + rules',
        'level_claimed': {
            'category': 'other',
            'text': ('Static analysis: structural necessary conditions of the property decided on every path of the '
                     'compiled program (rustc MIR, resolved callees), not the behavioural statement itself. Decided clauses: '
                     + '; '.join(clauses) + '. Not decided by this technique: ' + '; '.join(nd) + '.'),
            'design_ref': f'DESIGN.md §4 {pid}',
        },
        'level_note': ('Trusted base: rustc nightly MIR construction and callee resolution (the project pins stable; same edition/cfg); '
                       'the closed lists of recognised guard idioms and transparent adapters in rules/prims.py; hand-counted site floors. '
                       'Quick analyses the workspace feature set + case-resumption; thorough adds the default and responder-only configurations.'),
        'technique': getattr(m, 'TECHNIQUE', 'static analysis: custom MIR dataflow / CFG-cut / confinement rules via a rustc_private driver'),
    })

man = {
    'version': 1,
    'setup_cmd': './setup.sh',
    'hooks': {
        'guard': 'project_chip_rs_matter_verif',
        'enable': 'none needed: static analysis reads /repo as it is (RUSTC_WORKSPACE_WRAPPER=engine/rsm-facts under cargo +nightly check)',
        'baseline_off_cmd': 'cd /repo && cargo nextest run --workspace --no-fail-fast --tool-config-file pb:/w/lib/nextest.toml --profile pb --test-threads 8 --offline',
        'source_commits': [],
        'add_only': True,
    },
    'engines': [
        {'name': 'rsm-facts', 'path': 'engine/rsm-facts', 'serves_properties': [c['property_id'] for c in checks],
         'kind_free_text': 'rustc_private driver (RUSTC_WORKSPACE_WRAPPER) dumping pre-borrowck MIR, resolved callees, ADT/const/impl tables of rs-matter as JSON facts'},
        {'name': 'rules', 'path': 'rules', 'serves_properties': [c['property_id'] for c in checks],
         'kind_free_text': 'Python rule engine: success-edge cuts, confinement, ordering, provenance, table agreement, panic-surface rules over the facts'},
    ],
    'checks': checks,
    'not_applicable': not_app,
    'notes': 'Exit 2 + CHECK-ERROR = the check cannot decide (anchor lost / extractor failed); never silently 0. known_findings.json lists genuine defects recorded rather than repaired.',
}
with open(os.path.join(VERIF, 'MANIFEST.json'), 'w') as f:
    json.dump(man, f, indent=1)
print(f"{len(checks)} checks, {len(not_app)} not applicable")
