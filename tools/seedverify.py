#!/usr/bin/env python3
"""Confirm a seeded change myself, in one scratch worktree outside /repo and /verif:
  (a) clean HEAD + demo.diff      -> the demonstration passes
  (b) + patch.diff                -> the demonstration fails (test failure, not a build error)
  (c) patch.diff alone            -> the 705-test baseline passes
and run the property checks against the patched tree.  Results: <outdir>/<prop>-<k>.json

usage: seedverify.py <seed-root> <outdir> [Cxx/k ...]"""
import json
import os
import re
import subprocess
import sys

WT = os.environ.get('SEEDVERIFY_WT', '/tmp/seedverify-wt')
ENV = dict(os.environ, CARGO_NET_OFFLINE='true', CARGO_INCREMENTAL='0', CARGO_PROFILE_DEV_DEBUG='0', CARGO_PROFILE_TEST_DEBUG='0',
           CARGO_TARGET_DIR=WT + '/target')


def sh(cmd, cwd=WT, timeout=3600):
    p = subprocess.run(cmd, shell=True, cwd=cwd, env=ENV, stdout=subprocess.PIPE, stderr=subprocess.STDOUT, text=True, timeout=timeout)
    return p.returncode, p.stdout


def clean():
    sh('git checkout -q -- . && git clean -fdq -e target')


def main():
    root, outdir = sys.argv[1], sys.argv[2]
    os.makedirs(outdir, exist_ok=True)
    which = sys.argv[3:]
    if not os.path.isdir(WT):
        subprocess.check_call(['git', '-C', '/repo', 'worktree', 'add', '--detach', WT, 'HEAD'])
    else:
        head = subprocess.check_output(['git', '-C', '/repo', 'rev-parse', 'HEAD'], text=True).strip()
        sh(f'git checkout -q -- . && git clean -fdq -e target && git checkout -q --detach {head}')
    head = subprocess.check_output(['git', '-C', WT, 'rev-parse', '--short', 'HEAD'], text=True).strip()
    for w in which:
        prop, k = w.split('/')
        d = os.path.join(root, prop, k)
        res = {'seed': w, 'head': head}
        out = os.path.join(outdir, f'{prop}-{k}.json')
        try:
            meta = json.load(open(os.path.join(d, 'meta.json')))
            demo_cmd = meta['demo_cmd']
            demo_cmd = re.sub(r'CARGO_[A-Z_]+=\S+\s*', '', demo_cmd)
            if '--offline' not in demo_cmd:
                demo_cmd = demo_cmd.replace('cargo test', 'cargo test --offline', 1)
            res['demo_cmd'] = demo_cmd
            clean()
            rc, o = sh(f'git apply --check {d}/patch.diff')
            res['patch_applies'] = rc == 0
            rc2, o2 = sh(f'git apply --check {d}/demo.diff')
            res['demo_applies'] = rc2 == 0
            if rc or rc2:
                res['note'] = (o + o2)[-400:]
                json.dump(res, open(out, 'w'), indent=1)
                print(w, 'DOES-NOT-APPLY')
                continue
            # (a)
            sh(f'git apply {d}/demo.diff')
            rc, o = sh(demo_cmd)
            res['a_clean_demo_passes'] = rc == 0 and 'test result: ok' in o
            res['a_tail'] = o[-300:]
            # (b)
            sh(f'git apply {d}/patch.diff')
            rc, o = sh(demo_cmd)
            res['b_patched_demo_fails'] = rc != 0 and ('test result: FAILED' in o or 'panicked' in o) and 'error: could not compile' not in o
            res['b_tail'] = o[-400:]
            # (c)
            clean()
            sh(f'git apply {d}/patch.diff')
            rc, o = sh(f'/verif/tools/baseline.sh {WT} {WT}/target', timeout=5400)
            for _retry in range(2):
                # binding::test_switch_binding binds fixed UDP ports: a baseline running side by side makes it fail - run again
                fails = [l.split()[-1] for l in o.splitlines() if l.strip().startswith('FAIL')]
                if fails and all('binding::test_switch_binding' in f for f in fails):
                    rc, o = sh(f'/verif/tools/baseline.sh {WT} {WT}/target', timeout=5400)
                else:
                    break
            res['c_baseline'] = o.strip().splitlines()[0] if o.strip() else ''
            res['c_baseline_passes'] = 'pass=705' in o and 'missing=0' in o
            clean()
        except Exception as e:  # noqa
            res['error'] = repr(e)
        json.dump(res, open(out, 'w'), indent=1)
        print(w, {k_: v for k_, v in res.items() if k_.startswith(('a_clean', 'b_patched', 'c_baseline_p', 'patch_app'))}, flush=True)


if __name__ == '__main__':
    main()
