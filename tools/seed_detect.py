#!/usr/bin/env python3
"""Run every property check (quick tier) against each kept seeded change and record which checks report it.

For each /verif/seeded/<id>/: rsync /repo (working tree) to a scratch directory outside /repo and /verif, apply
patch.diff there, point the checks at it (VERIF_REPO), record per check: exit code, VIOLATION line and the violated
obligations (from the replay file).  Result goes to seeded/<id>/meta.json ["detected_by"].  The scratch copy and its
evidence directory are removed afterwards; /repo itself is never touched.

usage: seed_detect.py [--merge] [--checks C01,C02..] [<id> ...]     (default: every seed, all 20 checks)
--merge: keep the recorded results of the checks that are not re-run (used after a rule change that touches only some checks)"""
import json
import os
import shutil
import subprocess
import sys
import tempfile

VERIF = os.path.dirname(os.path.dirname(os.path.abspath(__file__)))
PROPS = [f'C{i:02d}' for i in range(1, 21)]


def main():
    args = sys.argv[1:]
    checks = PROPS
    merge = False
    if args and args[0] == '--merge':
        merge = True
        args = args[1:]
    if args and args[0] == '--checks':
        checks = args[1].split(',')
        args = args[2:]
    sroot = os.path.join(VERIF, 'seeded')
    ids = args or sorted(d for d in os.listdir(sroot) if os.path.isdir(os.path.join(sroot, d)))
    head = subprocess.check_output(['git', '-C', '/repo', 'rev-parse', '--short', 'HEAD'], text=True).strip()
    for sid in ids:
        d = os.path.join(sroot, sid)
        meta = json.load(open(os.path.join(d, 'meta.json')))
        T = tempfile.mkdtemp(prefix='rsm-seed-', dir='/tmp')
        EV = tempfile.mkdtemp(prefix='rsm-ev-', dir='/tmp')
        try:
            subprocess.check_call(['rsync', '-a', '--exclude', 'target', '--exclude', '.git', '/repo/', T + '/'])
            p = subprocess.run(['patch', '-p1', '--no-backup-if-mismatch', '-s', '-i', os.path.join(d, 'patch.diff')], cwd=T,
                               stdout=subprocess.PIPE, stderr=subprocess.STDOUT, text=True)
            if p.returncode != 0:
                # a later fix: commit rewrote the lines the change touches: keep the last result, say at which head it stopped applying
                old = meta.get('detected_by') or {}
                old['no_longer_applies_at'] = head
                old['no_longer_applies_note'] = 'patch.diff applies to ' + str(meta.get('confirmed_by_me', {}).get('repo_head')) + ' (where it was confirmed) but not to this head: ' + p.stdout[-200:]
                meta['detected_by'] = old
                json.dump(meta, open(os.path.join(d, 'meta.json'), 'w'), indent=1)
                print(sid, 'PATCH-FAILED (last result kept)', flush=True)
                continue
            env = dict(os.environ, VERIF_REPO=T, VERIF_EVIDENCE_DIR=EV, VERIF_CACHE_KEEP='12')
            res = {}
            # the first check extracts the facts of this tree; the others then run side by side on the cached fact file
            first = subprocess.run([os.path.join(VERIF, 'check'), checks[0]], env=env, stdout=subprocess.PIPE, stderr=subprocess.STDOUT, text=True)
            from concurrent.futures import ThreadPoolExecutor
            with ThreadPoolExecutor(max_workers=int(os.environ.get('SEED_DETECT_PAR', '6'))) as ex:
                rest = list(ex.map(lambda c_: subprocess.run([os.path.join(VERIF, 'check'), c_], env=env, stdout=subprocess.PIPE, stderr=subprocess.STDOUT, text=True), checks[1:]))
            for c, r in zip(checks, [first] + rest):
                viol = []
                rp = os.path.join(EV, 'replay', c + '.json')
                if r.returncode == 1 and os.path.exists(rp):
                    for o in json.load(open(rp)).get('violations', []):
                        viol.append(f"{o.get('rule')} {o.get('fn', '').split('::')[-1]}: {o.get('what', '')}"[:300])
                    os.remove(rp)
                if r.returncode != 0:
                    res[c] = {'exit': r.returncode, 'violations': viol}
                    if r.returncode != 1:
                        res[c]['tail'] = r.stdout[-300:]
            prop = meta['breaks_property']
            old = meta.get('detected_by') or {}
            if merge and 'reporting' in old:
                for c, v in list(old.get('reporting', {}).items()) + list(old.get('undecided', {}).items()):
                    if c not in checks:
                        res[c] = v
                checks_run = sorted(set(old.get('checks_run', [])) | set(checks))
            else:
                checks_run = list(checks)
            meta['detected_by'] = {
                'repo_head': head,
                'checks_run': checks_run,
                'reporting': {c: v for c, v in res.items() if v['exit'] == 1},
                'undecided': {c: v for c, v in res.items() if v['exit'] not in (0, 1)},
                'caught_by_own_property_check': res.get(prop, {}).get('exit') == 1,
                'caught': any(v['exit'] == 1 for v in res.values()),
            }
            json.dump(meta, open(os.path.join(d, 'meta.json'), 'w'), indent=1)
            print(sid, 'caught by', sorted(c for c, v in res.items() if v['exit'] == 1) or 'NOTHING',
                  'undecided', sorted(c for c, v in res.items() if v['exit'] not in (0, 1)), flush=True)
        finally:
            shutil.rmtree(T, ignore_errors=True)
            shutil.rmtree(EV, ignore_errors=True)


if __name__ == '__main__':
    main()
