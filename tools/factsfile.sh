#!/bin/bash
# print the path of the fact file for /repo's current tree (extracting it if needed)
cd "$(dirname "$0")/.." && python3 -c "
import sys; sys.path.insert(0,'rules'); import extract; print(extract.ensure_facts('${1:-q}')[0])" 2>/dev/null
