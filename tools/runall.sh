#!/bin/bash
# tools/runall.sh [quick|thorough] [par]  - every check on /repo's current tree, side by side; prints one line per check
cd "$(dirname "$0")/.." || exit 2
tier=${1:-quick}; par=${2:-5}
./check C01 --tier "$tier" > /tmp/runall-C01.out 2>&1; echo "C01 rc=$? $(tail -n 1 /tmp/runall-C01.out)"
printf 'C%02d\n' $(seq 2 20) | xargs -P "$par" -I{} sh -c './check {} --tier '"$tier"' > /tmp/runall-{}.out 2>&1; echo "{} rc=$? $(tail -n 1 /tmp/runall-{}.out)"' | sort
