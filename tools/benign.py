#!/usr/bin/env python3
"""False-alarm self-test (not a registered check): apply behaviour-preserving edits (engine/benign/*.json: renames of local
variables / parameters inside one function, statement-neutral rewrites) to a scratch copy of /repo, and assert that every
listed property check still exits 0 - neither VIOLATION nor "cannot decide".

edit kinds:  {"file":..., "old":..., "new":...}                      exact, unique text replacement
             {"file":..., "old":..., "new":..., "count": n}          the same, for text that occurs exactly n times
             {"file":..., "in_fn": "fn name", "rename": {"a": "b"}}  whole-word rename inside the body of that function
usage: benign.py [--only name,...]"""
import glob
import json
import os
import re
import shutil
import subprocess
import sys
import tempfile

VERIF = os.path.dirname(os.path.dirname(os.path.abspath(__file__)))


def fn_span(src, marker):
    i = src.index(marker)
    assert src.count(marker) == 1, f'{marker!r} occurs {src.count(marker)} times'
    ls = src.rfind('\n', 0, i) + 1
    indent = re.match(r'\s*', src[ls:]).group(0)
    m = re.search(r'\n' + indent + r'\}\n', src[i:])
    return i, i + m.end()


def main():
    only = None
    for i, a in enumerate(sys.argv):
        if a == '--only':
            only = set(sys.argv[i + 1].split(','))
    items = []
    for f in sorted(glob.glob(os.path.join(VERIF, 'engine', 'benign', '*.json'))):
        items += [m for m in json.load(open(f)) if not only or m['name'] in only]
    tmp = tempfile.mkdtemp(prefix='rsm-ben-', dir='/tmp')
    evd = tempfile.mkdtemp(prefix='rsm-ev-', dir='/tmp')
    fails = 0
    try:
        subprocess.check_call(['rsync', '-a', '--exclude', 'target', '--exclude', '.git', '/repo/', tmp + '/'])
        for m in items:
            for e in m['edits']:
                p = os.path.join(tmp, e['file'])
                s = open(p).read()
                if 'rename' in e:
                    a, b = fn_span(s, e['in_fn'])
                    body = s[a:b]
                    for old, new in e['rename'].items():
                        n = len(re.findall(r'(?<![.\w])' + re.escape(old) + r'\b', body))
                        if n == 0:
                            print(f"BENIGN-ERROR {m['name']}: {old} not found in {e['in_fn']}")
                            fails += 1
                        def sub(m, new=new, body_ref=body):
                            # `name: value` inside a struct literal / pattern names a field - keep it; `let [mut] name: T` is the variable
                            after = body_ref[m.end():m.end() + 3]
                            before = body_ref[max(0, m.start() - 8):m.start()]
                            if re.match(r'\s*:[^:]', after) and not re.search(r'(let|mut)\s+$', before):
                                return m.group(0)
                            return new
                        body = re.sub(r'(?<![.\w])' + re.escape(old) + r'\b', sub, body)
                    s = s[:a] + body + s[b:]
                else:
                    if s.count(e['old']) != e.get('count', 1):
                        print(f"BENIGN-ERROR {m['name']}: pattern occurs {s.count(e['old'])} times")
                        fails += 1
                        continue
                    s = s.replace(e['old'], e['new'])
                open(p, 'w').write(s)
        allp = [f'C{i:02d}' for i in range(1, 21)]
        props = allp if any(not m.get('props') for m in items) else sorted({p for m in items for p in m['props']})
        for p in props:
            env = dict(os.environ, VERIF_REPO=tmp, VERIF_EVIDENCE_DIR=evd, VERIF_CACHE_KEEP='6')
            r = subprocess.run([os.path.join(VERIF, 'check'), p], env=env, stdout=subprocess.PIPE, stderr=subprocess.STDOUT, text=True)
            ok = r.returncode == 0
            print(f"{'QUIET  ' if ok else 'ALARM  '} {p} rc={r.returncode}", flush=True)
            if not ok:
                fails += 1
                print('\n'.join('      ' + l for l in r.stdout.splitlines() if 'violated' in l or 'CHECK-ERROR' in l or 'AnchorLost' in l or 'key=' in l or l.startswith(('error', ' -->', '  -->')))[:3000])
                if 'ExtractError' in r.stdout:
                    break
    finally:
        shutil.rmtree(tmp, ignore_errors=True)
        shutil.rmtree(evd, ignore_errors=True)
    print('benign:', 'OK' if not fails else f'{fails} problem(s)')
    return 1 if fails else 0


if __name__ == '__main__':
    sys.exit(main())
