#!/bin/bash
# usage: seedtest.sh <patch.diff> <Cxx> [<Cyy> ...]  -- apply a seeded change to a scratch copy of /repo and run the checks against it
set -u
P=$1; shift
T=$(mktemp -d /tmp/rsm-seed-XXXX)
rsync -a --exclude target --exclude .git /repo/ "$T/"
if ! (cd "$T" && patch -p1 --no-backup-if-mismatch -s < "$P"); then echo "PATCH-FAILED $P"; rm -rf "$T"; exit 3; fi
EV=$(mktemp -d /tmp/rsm-ev-XXXX)
for c in "$@"; do
  VERIF_REPO="$T" VERIF_EVIDENCE_DIR="$EV" VERIF_CACHE_KEEP=6 /verif/check "$c" 2>&1 | grep -v "^\[extract\]" | tail -${TAILN:-12}
done
rm -rf "$T" "$EV"
