#!/bin/bash
# usage: baseline.sh <repo-dir> [target-dir]
# Runs the pinned baseline suite (cargo nextest, workspace, offline) in <repo-dir> and
# prints "BASELINE pass=<n> fail=<n> missing=<n>" comparing against /root/.vp/BASELINE.json.
set -u
D=${1:-/repo}
T=${2:-$D/target}
cd "$D" || exit 2
export CARGO_NET_OFFLINE=true CARGO_TARGET_DIR="$T"
rm -f "$T"/nextest/pb/junit.xml "$D"/target/nextest/pb/junit.xml; cargo nextest run --workspace --no-fail-fast --tool-config-file pb:/w/lib/nextest.toml --profile pb --test-threads 8 --offline >"$T/nextest.log" 2>&1
J=$(ls "$T"/nextest/pb/junit.xml "$D"/target/nextest/pb/junit.xml 2>/dev/null | head -1)
python3 - "$J" <<'P'
import sys,json,xml.etree.ElementTree as ET
base=set(json.load(open('/root/.vp/BASELINE.json'))['stable_pass'])
if len(sys.argv)<2 or not sys.argv[1]:
    print("BASELINE no-junit (build failed?)"); sys.exit(2)
t=ET.parse(sys.argv[1]).getroot()
ok=set();bad=set()
for ts in t.iter('testsuite'):
    for tc in ts.iter('testcase'):
        name=ts.get('name')+'::'+tc.get('name')
        if tc.find('failure') is not None or tc.find('error') is not None: bad.add(name)
        else: ok.add(name)
miss=base-ok
print(f"BASELINE pass={len(ok&base)} fail_in_baseline={len(bad&base)} missing={len(miss-bad)} other_fail={sorted(bad-base)[:5]}")
for m in sorted(bad&base)[:20]: print("  FAIL",m)
for m in sorted(miss-bad)[:5]: print("  MISSING",m)
sys.exit(0 if not (miss) else 1)
P
