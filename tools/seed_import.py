#!/usr/bin/env python3
"""Copy the seeded changes I confirmed (tools/seedverify.py: a, b and c all true) into /verif/seeded/<Cxx>-<k>/.

usage: seed_import.py <seed-root> <verify-outdir> [tag]      (tag, e.g. r2, names the directories <Cxx>-<tag>-<k>)

Each kept directory holds patch.diff (the change), demo.diff (the demonstration: a test that passes without
the change and fails with it) and meta.json (what it breaks, what it needs to manifest, what I ran).
A seed that did not pass the three confirmations is NOT kept; it is listed in seeded/REJECTED.json with the reason."""
import json
import os
import shutil
import sys

VERIF = os.path.dirname(os.path.dirname(os.path.abspath(__file__)))


def main():
    root, vout = sys.argv[1], sys.argv[2]
    tag = (sys.argv[3] + '-') if len(sys.argv) > 3 else ''
    dest = os.path.join(VERIF, 'seeded')
    os.makedirs(dest, exist_ok=True)
    rej_path = os.path.join(dest, 'REJECTED.json')
    rejected = json.load(open(rej_path)) if os.path.exists(rej_path) else {}
    for f in sorted(os.listdir(vout)):
        if not f.endswith('.json'):
            continue
        v = json.load(open(os.path.join(vout, f)))
        prop, k = v['seed'].split('/')
        sid = f'{prop}-{tag}{k}'
        src = os.path.join(root, prop, k)
        ok = v.get('patch_applies') and v.get('demo_applies') and v.get('a_clean_demo_passes') and v.get('b_patched_demo_fails') and v.get('c_baseline_passes')
        if not ok:
            rejected[sid] = {kk: v.get(kk) for kk in ('head', 'patch_applies', 'demo_applies', 'a_clean_demo_passes', 'b_patched_demo_fails',
                                                      'c_baseline_passes', 'c_baseline', 'note', 'error')}
            shutil.rmtree(os.path.join(dest, sid), ignore_errors=True)
            print(sid, 'REJECTED')
            continue
        rejected.pop(sid, None)
        d = os.path.join(dest, sid)
        os.makedirs(d, exist_ok=True)
        shutil.copy(os.path.join(src, 'patch.diff'), os.path.join(d, 'patch.diff'))
        shutil.copy(os.path.join(src, 'demo.diff'), os.path.join(d, 'demo.diff'))
        am = json.load(open(os.path.join(src, 'meta.json')))
        old = {}
        if os.path.exists(os.path.join(d, 'meta.json')):
            old = json.load(open(os.path.join(d, 'meta.json')))
        meta = {
            'id': sid,
            'breaks_property': prop,
            'summary': am.get('summary'),
            'needs_to_manifest': am.get('needs_to_manifest'),
            'why_existing_tests_pass': am.get('why_existing_tests_pass'),
            'files_touched': am.get('files_touched'),
            'origin': 'written by a fresh sub-agent that was given only the text of the property and a scratch worktree; nothing from /verif',
            'confirmed_by_me': {
                'repo_head': v['head'],
                'worktree': 'scratch git worktree outside /repo and /verif, removed afterwards',
                'demo_cmd': v['demo_cmd'],
                'a_demo_passes_without_patch': v['a_clean_demo_passes'],
                'b_demo_fails_with_patch': v['b_patched_demo_fails'],
                'b_tail': v.get('b_tail', '')[-300:],
                'c_patch_alone_passes_baseline': v['c_baseline_passes'],
                'c_baseline_line': v.get('c_baseline'),
                'tool': 'tools/seedverify.py',
            },
        }
        if 'detected_by' in old:
            meta['detected_by'] = old['detected_by']
        json.dump(meta, open(os.path.join(d, 'meta.json'), 'w'), indent=1)
        print(sid, 'kept')
    json.dump(rejected, open(rej_path, 'w'), indent=1, sort_keys=True)


if __name__ == '__main__':
    main()
