#!/usr/bin/env python3
"""Pretty-print the extracted MIR facts of bodies whose def path matches a regex.
usage: mirdump.py <facts.jsonl> <regex> [--list]"""
import json
import re
import sys


def pl(p):
    s = f"_{p[0]}"
    for x in p[1:]:
        if x == '*':
            s = f"(*{s})"
        elif x.startswith('.'):
            s += '.' + x[1:].split(':')[0]
        elif x.startswith('@'):
            s = f"({s} as {x[1:]})"
        else:
            s += x
    return s


def op(o):
    if 'c' in o:
        return pl(o['c'])
    if 'm' in o:
        return 'move ' + pl(o['m'])
    k = o.get('k', {})
    if 'fn' in k:
        return 'fn:' + k['fn']
    if 'v' in k:
        return f"const {k['v']}{'(' + k['p'] + ')' if 'p' in k else ''}"
    if 'p' in k:
        return 'const ' + k['p']
    return 'const<' + k.get('ty', '?') + '>'


def rv(r):
    o = r['op']
    a = [op(x) for x in r.get('a', [])]
    if o == 'use':
        return a[0]
    if o == 'ref':
        return ('&mut ' if r['mut'] else '&') + pl(r['pl'])
    if o == 'bin':
        return f"{r['b']}({', '.join(a)})"
    if o == 'un':
        return f"{r['u']}({a[0]})"
    if o == 'cast':
        return f"{a[0]} as {r['ty']}"
    if o == 'discr':
        return f"discr({pl(r['pl'])}) [{r['adt']}]"
    if o == 'agg':
        if 'adt' in r:
            v = ('::' + r['var']) if r.get('var') else ''
            return f"{r['adt']}{v} {{{', '.join(f'{n}: {x}' for n, x in zip(r['fields'], a))}}}"
        if 'clo' in r:
            return f"{r['ck']} {r['clo']} [{', '.join(a)}]"
        return f"({', '.join(a)})"
    if o == 'rawptr':
        return '&raw ' + pl(r['pl'])
    return o + '(' + ', '.join(a) + ')'


def term(t):
    k = t['t']
    if k == 'call':
        f = t.get('f') or ('(' + pl(t['fl']) + ')' if 'fl' in t else '?')
        r = f" => {t['r']}" if 'r' in t else ''
        return f"{pl(t['d'])} = {f}{r}({', '.join(op(x) for x in t['a'])}) -> bb{t['to']}  [ln {t['ln']}]"
    if k == 'switch':
        return f"switch {op(t['on'])}: {', '.join(f'{v}->bb{b}' for v, b in t['tg'])}, else->bb{t['else']}  [ln {t['ln']}]"
    if k == 'assert':
        return f"assert({op(t['cond'])} == {t['exp']}) {t['msg']} {[op(x) for x in t['ops']]} -> bb{t['to']} [ln {t['ln']}]"
    if k == 'yield':
        return f"yield -> bb{t['to']} resume_arg={pl(t['ra'])} drop->{t['drop']}"
    if k == 'drop':
        return f"drop({pl(t['pl'])}) -> bb{t['to']}"
    if k in ('goto', 'fedge', 'funwind'):
        return f"{k} -> bb{t['to']}" + (f" (imag bb{t['imag']})" if k == 'fedge' else '')
    return k


def dump(b):
    print(f"=== {b['fn']}  [{b['kind']}] {b['file']}:{b['line']} argc={b['argc']} ret={b['ret']}")
    if not b.get('bbs'):
        print('  (call-only) calls:', b['calls'])
        return
    for i, l in enumerate(b['locals']):
        if len(l) > 1 or i <= b['argc']:
            print(f"    _{i}: {l[0]}" + (f"   // {l[1]}" if len(l) > 1 else ''))
    for i, bb in enumerate(b['bbs']):
        c = ' (cleanup)' if bb.get('c') else ''
        if c:
            continue
        print(f"  bb{i}{c}:")
        for s in bb['s']:
            print(f"      {pl(s[0])} = {rv(s[1])}   [ln {s[2]}{' x' if s[3] else ''}]")
        print(f"      {term(bb['t'])}")


if __name__ == '__main__':
    rx = re.compile(sys.argv[2])
    lst = '--list' in sys.argv
    for line in open(sys.argv[1]):
        if not line.startswith('{"k":"body"'):
            continue
        m = re.match(r'\{"k":"body","fn":"((?:[^"\\]|\\.)*)"', line)
        if not m or not rx.search(m.group(1)):
            continue
        b = json.loads(line)
        if lst:
            print(b['fn'], b['kind'], f"{b['file']}:{b['line']}", 'focus' if b['focus'] else '')
        else:
            dump(b)
