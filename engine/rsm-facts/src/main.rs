// rsm-facts: a rustc_private driver that dumps source-shaped MIR facts
// (mir_promoted, i.e. before borrowck steals it) for every body of the
// target crate, as JSON lines.  Run as RUSTC_WORKSPACE_WRAPPER.
//
// env:
//   RSM_FACTS_OUT    path of the fact file to write (one write per process)
//   RSM_FACTS_CRATE  crate name to analyse (default rs_matter)
//   RSM_FACTS_FOCUS  path of a file with one def-path prefix per line; bodies
//                    whose def path starts with one of them get full facts,
//                    "!prefix" excludes; all other bodies get call-only facts
#![feature(rustc_private)]
#![allow(clippy::all)]

extern crate rustc_abi;
extern crate rustc_data_structures;
extern crate rustc_driver;
extern crate rustc_hir;
extern crate rustc_interface;
extern crate rustc_middle;
extern crate rustc_session;
extern crate rustc_span;

use std::collections::{BTreeMap, BTreeSet};
use std::fmt::Write as _;
use std::sync::Mutex;

use rustc_driver::{Callbacks, Compilation};
use rustc_hir::def::DefKind;
use rustc_hir::def_id::{DefId, LocalDefId};
use rustc_middle::mir::{
    AggregateKind, AssertKind, Body, Const, Operand, Place, ProjectionElem, Rvalue,
    StatementKind, TerminatorKind,
};
use rustc_middle::ty::print::{with_no_trimmed_paths, with_no_visible_paths};
use rustc_middle::ty::{self, Instance, Ty, TyCtxt, TypingEnv};
use rustc_span::Span;

static OUT: Mutex<Vec<String>> = Mutex::new(Vec::new());
static FOREIGN_ADTS: Mutex<BTreeSet<String>> = Mutex::new(BTreeSet::new());
static FOCUS: Mutex<Option<(Vec<String>, Vec<String>)>> = Mutex::new(None);

fn esc(s: &str) -> String {
    let mut o = String::with_capacity(s.len() + 2);
    o.push('"');
    for c in s.chars() {
        match c {
            '"' => o.push_str("\\\""),
            '\\' => o.push_str("\\\\"),
            '\n' => o.push_str("\\n"),
            '\r' => o.push_str("\\r"),
            '\t' => o.push_str("\\t"),
            c if (c as u32) < 0x20 => {
                let _ = write!(o, "\\u{:04x}", c as u32);
            }
            c => o.push(c),
        }
    }
    o.push('"');
    o
}

fn trunc(mut s: String, n: usize) -> String {
    if s.len() > n {
        let mut k = n;
        while !s.is_char_boundary(k) {
            k -= 1;
        }
        s.truncate(k);
        s.push('…');
    }
    s
}

fn is_focus(path: &str) -> bool {
    let g = FOCUS.lock().unwrap();
    match &*g {
        None => true,
        Some((inc, exc)) => {
            let m = |p: &String| {
                p == "*" || path == p
                    || (path.starts_with(p.as_str())
                        && (p.ends_with("::") || path[p.len()..].starts_with("::") || path[p.len()..].starts_with('<')))
                    || path.starts_with(&format!("<{}", p))
                    || path.contains(&format!(" for {}", p))
                    || path.contains(&format!("<impl at {}", p))
            };
            if exc.iter().any(m) {
                return false;
            }
            inc.iter().any(m)
        }
    }
}

fn dpath(tcx: TyCtxt<'_>, d: DefId) -> String {
    with_no_visible_paths!(with_no_trimmed_paths!(tcx.def_path_str(d)))
}

fn ty_str<'tcx>(ty: Ty<'tcx>) -> String {
    trunc(with_no_visible_paths!(with_no_trimmed_paths!(format!("{}", ty))), 240)
}

struct Cx<'a, 'tcx> {
    tcx: TyCtxt<'tcx>,
    body: &'a Body<'tcx>,
    env: TypingEnv<'tcx>,
    def: DefId,
}

impl<'a, 'tcx> Cx<'a, 'tcx> {
    fn line(&self, sp: Span) -> (usize, bool) {
        let exp = sp.from_expansion();
        let sp2 = sp.source_callsite();
        let lo = self.tcx.sess.source_map().lookup_char_pos(sp2.lo());
        (lo.line, exp)
    }

    fn field_name(&self, base_ty: rustc_middle::mir::PlaceTy<'tcx>, f: rustc_abi::FieldIdx) -> String {
        let tcx = self.tcx;
        match base_ty.ty.kind() {
            ty::Adt(adt, _) => {
                let v = base_ty.variant_index.unwrap_or(rustc_abi::FIRST_VARIANT);
                if adt.is_enum() && base_ty.variant_index.is_none() {
                    return format!("{}:{}", f.as_usize(), dpath(tcx, adt.did()));
                }
                let var = adt.variant(v);
                let name = var.fields[f].name.to_string();
                if adt.is_enum() {
                    format!("{}:{}::{}", name, dpath(tcx, adt.did()), var.name)
                } else {
                    format!("{}:{}", name, dpath(tcx, adt.did()))
                }
            }
            ty::Closure(did, _) | ty::Coroutine(did, _) | ty::CoroutineClosure(did, _) => {
                let mut name = format!("{}", f.as_usize());
                if let Some(ld) = did.as_local() {
                    let caps = tcx.closure_captures(ld);
                    if let Some(c) = caps.get(f.as_usize()) {
                        name = with_no_visible_paths!(with_no_trimmed_paths!(c.to_string(tcx)));
                    }
                }
                format!("{}:^", name)
            }
            ty::Tuple(_) => format!("{}:()", f.as_usize()),
            _ => format!("{}:?", f.as_usize()),
        }
    }

    fn place(&self, p: &Place<'tcx>) -> String {
        let mut s = format!("[{}", p.local.as_usize());
        for (base, elem) in p.iter_projections() {
            s.push(',');
            match elem {
                ProjectionElem::Deref => s.push_str("\"*\""),
                ProjectionElem::Field(f, _) => {
                    let bt = base.ty(&self.body.local_decls, self.tcx);
                    s.push_str(&esc(&format!(".{}", self.field_name(bt, f))));
                }
                ProjectionElem::Index(l) => {
                    let _ = write!(s, "\"[_{}]\"", l.as_usize());
                }
                ProjectionElem::ConstantIndex { offset, from_end, .. } => {
                    let _ = write!(s, "\"[{}{}]\"", if from_end { "-" } else { "" }, offset);
                }
                ProjectionElem::Subslice { from, to, from_end } => {
                    let _ = write!(s, "\"[{}..{}{}]\"", from, if from_end { "-" } else { "" }, to);
                }
                ProjectionElem::Downcast(name, v) => {
                    let n = name.map(|n| n.to_string()).unwrap_or_else(|| format!("{}", v.as_usize()));
                    s.push_str(&esc(&format!("@{}", n)));
                }
                _ => s.push_str("\"~\""),
            }
        }
        s.push(']');
        s
    }

    fn konst(&self, c: &rustc_middle::mir::ConstOperand<'tcx>) -> String {
        let tcx = self.tcx;
        let ty = c.const_.ty();
        match ty.kind() {
            ty::FnDef(did, args) => {
                let mut s = format!("{{\"fn\":{}", esc(&dpath(tcx, *did)));
                if !args.is_empty() {
                    let fa = with_no_visible_paths!(with_no_trimmed_paths!(tcx.def_path_str_with_args(*did, args)));
                    let _ = write!(s, ",\"fa\":{}", esc(&trunc(fa, 300)));
                }
                s.push('}');
                return s;
            }
            _ => {}
        }
        let mut s = String::from("{");
        let mut first = true;
        let mut sep = |s: &mut String| {
            if !first {
                s.push(',');
            }
            first = false;
        };
        if let Const::Unevaluated(uv, _) = c.const_ {
            if uv.promoted.is_none() {
                sep(&mut s);
                let _ = write!(s, "\"p\":{}", esc(&dpath(tcx, uv.def)));
            } else {
                sep(&mut s);
                let _ = write!(s, "\"promoted\":{}", uv.promoted.unwrap().as_usize());
            }
        }
        let scalar_ok = ty.is_integral() || ty.is_bool() || ty.is_char() || matches!(ty.kind(), ty::Adt(..));
        if scalar_ok {
            if let Some(si) = c.const_.try_eval_scalar_int(tcx, self.env) {
                let bits = si.to_bits_unchecked();
                let size = si.size();
                let v: i128 = if ty.is_signed() { size.sign_extend(bits) as i128 } else { bits as i128 };
                sep(&mut s);
                let _ = write!(s, "\"v\":{}", v);
            }
        }
        sep(&mut s);
        let _ = write!(s, "\"ty\":{}", esc(&ty_str(ty)));
        s.push('}');
        s
    }

    fn operand(&self, o: &Operand<'tcx>) -> String {
        match o {
            Operand::Copy(p) => format!("{{\"c\":{}}}", self.place(p)),
            Operand::Move(p) => format!("{{\"m\":{}}}", self.place(p)),
            Operand::Constant(c) => format!("{{\"k\":{}}}", self.konst(c)),
            #[allow(unreachable_patterns)]
            _ => "{\"o\":1}".to_string(),
        }
    }

    fn operands<'b, I: Iterator<Item = &'b Operand<'tcx>>>(&self, it: I) -> String
    where
        'tcx: 'b,
    {
        let v: Vec<String> = it.map(|o| self.operand(o)).collect();
        format!("[{}]", v.join(","))
    }

    fn note_foreign_adt(&self, adt: ty::AdtDef<'tcx>) {
        let tcx = self.tcx;
        if adt.did().is_local() {
            return;
        }
        let p = dpath(tcx, adt.did());
        {
            let mut g = FOREIGN_ADTS.lock().unwrap();
            if g.contains(&p) {
                return;
            }
            g.insert(p.clone());
        }
        let rec = adt_record(tcx, adt, false);
        OUT.lock().unwrap().push(rec);
    }

    fn rvalue(&self, rv: &Rvalue<'tcx>) -> String {
        let tcx = self.tcx;
        match rv {
            Rvalue::Use(o, ..) => format!("{{\"op\":\"use\",\"a\":[{}]}}", self.operand(o)),
            Rvalue::Repeat(o, _) => format!("{{\"op\":\"repeat\",\"a\":[{}]}}", self.operand(o)),
            Rvalue::Ref(_, bk, p) => format!(
                "{{\"op\":\"ref\",\"mut\":{},\"pl\":{}}}",
                if matches!(bk, rustc_middle::mir::BorrowKind::Mut { .. }) { 1 } else { 0 },
                self.place(p)
            ),
            Rvalue::RawPtr(_, p) => format!("{{\"op\":\"rawptr\",\"pl\":{}}}", self.place(p)),
            Rvalue::Cast(kind, o, ty) => format!(
                "{{\"op\":\"cast\",\"ck\":{},\"a\":[{}],\"ty\":{}}}",
                esc(&trunc(format!("{:?}", kind), 60)),
                self.operand(o),
                esc(&ty_str(*ty))
            ),
            Rvalue::BinaryOp(op, ab) => format!(
                "{{\"op\":\"bin\",\"b\":\"{:?}\",\"a\":[{},{}]}}",
                op,
                self.operand(&ab.0),
                self.operand(&ab.1)
            ),
            Rvalue::UnaryOp(op, o) => format!("{{\"op\":\"un\",\"u\":\"{:?}\",\"a\":[{}]}}", op, self.operand(o)),
            Rvalue::Discriminant(p) => {
                let pty = p.ty(&self.body.local_decls, tcx).ty;
                let mut adtp = String::new();
                if let ty::Adt(adt, _) = pty.kind() {
                    adtp = dpath(tcx, adt.did());
                    self.note_foreign_adt(*adt);
                }
                format!("{{\"op\":\"discr\",\"pl\":{},\"adt\":{}}}", self.place(p), esc(&adtp))
            }
            Rvalue::Aggregate(kind, ops) => {
                let a = self.operands(ops.iter());
                match &**kind {
                    AggregateKind::Adt(did, vidx, _, _, _) => {
                        let adt = tcx.adt_def(*did);
                        let var = adt.variant(*vidx);
                        let names: Vec<String> = var.fields.iter().map(|f| esc(&f.name.to_string())).collect();
                        format!(
                            "{{\"op\":\"agg\",\"adt\":{},\"var\":{},\"fields\":[{}],\"a\":{}}}",
                            esc(&dpath(tcx, *did)),
                            if adt.is_enum() { esc(&var.name.to_string()) } else { "null".to_string() },
                            names.join(","),
                            a
                        )
                    }
                    AggregateKind::Closure(did, _) => {
                        format!("{{\"op\":\"agg\",\"clo\":{},\"ck\":\"closure\",\"a\":{}}}", esc(&dpath(tcx, *did)), a)
                    }
                    AggregateKind::Coroutine(did, _) => {
                        format!("{{\"op\":\"agg\",\"clo\":{},\"ck\":\"coroutine\",\"a\":{}}}", esc(&dpath(tcx, *did)), a)
                    }
                    AggregateKind::CoroutineClosure(did, _) => {
                        format!("{{\"op\":\"agg\",\"clo\":{},\"ck\":\"coroutine_closure\",\"a\":{}}}", esc(&dpath(tcx, *did)), a)
                    }
                    AggregateKind::Tuple => format!("{{\"op\":\"agg\",\"tuple\":1,\"a\":{}}}", a),
                    AggregateKind::Array(_) => format!("{{\"op\":\"agg\",\"array\":1,\"a\":{}}}", a),
                    AggregateKind::RawPtr(..) => format!("{{\"op\":\"agg\",\"rawptr\":1,\"a\":{}}}", a),
                }
            }
            Rvalue::CopyForDeref(p) => format!("{{\"op\":\"use\",\"a\":[{{\"c\":{}}}]}}", self.place(p)),
            Rvalue::ThreadLocalRef(_) => "{\"op\":\"tls\"}".to_string(),
            Rvalue::WrapUnsafeBinder(o, _) => format!("{{\"op\":\"use\",\"a\":[{}]}}", self.operand(o)),
            #[allow(unreachable_patterns)]
            _ => "{\"op\":\"other\"}".to_string(),
        }
    }

    fn callee(&self, func: &Operand<'tcx>) -> (String, Option<String>) {
        // returns (json fragment, primary path for call-only facts)
        let tcx = self.tcx;
        match func {
            Operand::Constant(c) => {
                if let ty::FnDef(did, args) = c.const_.ty().kind() {
                    let path = dpath(tcx, *did);
                    let mut s = format!("\"f\":{}", esc(&path));
                    if !args.is_empty() {
                        let fa = with_no_visible_paths!(with_no_trimmed_paths!(tcx.def_path_str_with_args(*did, args)));
                        let _ = write!(s, ",\"fa\":{}", esc(&trunc(fa, 400)));
                    }
                    let mut primary = path.clone();
                    if tcx.trait_of_assoc(*did).is_some() {
                        s.push_str(",\"tr\":1");
                    }
                    let has_infer_or_escaping = args.iter().any(|a| {
                        use rustc_middle::ty::TypeVisitableExt;
                        a.has_escaping_bound_vars() || a.has_infer()
                    });
                    if !has_infer_or_escaping {
                        if let Ok(Some(inst)) = Instance::try_resolve(tcx, self.env, *did, args) {
                            let rd = inst.def_id();
                            if rd != *did {
                                let rp = dpath(tcx, rd);
                                let _ = write!(s, ",\"r\":{}", esc(&rp));
                                primary = rp;
                            }
                            if let ty::InstanceKind::Item(_) = inst.def {
                            } else {
                                let _ = write!(s, ",\"ik\":{}", esc(&trunc(format!("{:?}", inst.def), 40).split('(').next().unwrap_or("").to_string()));
                            }
                        }
                    }
                    // the value's own self type for trait calls
                    (s, Some(primary))
                } else {
                    (format!("\"fk\":{}", self.konst(c)), None)
                }
            }
            Operand::Copy(p) | Operand::Move(p) => (format!("\"fl\":{}", self.place(p)), None),
            #[allow(unreachable_patterns)]
            _ => ("\"f\":\"?\"".to_string(), None),
        }
    }
}

fn assert_kind<'tcx>(cx: &Cx<'_, 'tcx>, m: &AssertKind<Operand<'tcx>>) -> (String, String) {
    match m {
        AssertKind::BoundsCheck { len, index } => {
            ("BoundsCheck".into(), format!("[{},{}]", cx.operand(len), cx.operand(index)))
        }
        AssertKind::Overflow(op, a, b) => {
            (format!("Overflow({:?})", op), format!("[{},{}]", cx.operand(a), cx.operand(b)))
        }
        AssertKind::OverflowNeg(a) => ("OverflowNeg".into(), format!("[{}]", cx.operand(a))),
        AssertKind::DivisionByZero(a) => ("DivisionByZero".into(), format!("[{}]", cx.operand(a))),
        AssertKind::RemainderByZero(a) => ("RemainderByZero".into(), format!("[{}]", cx.operand(a))),
        AssertKind::ResumedAfterReturn(_) => ("ResumedAfterReturn".into(), "[]".into()),
        AssertKind::ResumedAfterPanic(_) => ("ResumedAfterPanic".into(), "[]".into()),
        AssertKind::ResumedAfterDrop(_) => ("ResumedAfterDrop".into(), "[]".into()),
        AssertKind::MisalignedPointerDereference { .. } => ("MisalignedPointerDereference".into(), "[]".into()),
        AssertKind::NullPointerDereference => ("NullPointerDereference".into(), "[]".into()),
        AssertKind::InvalidEnumConstruction(_) => ("InvalidEnumConstruction".into(), "[]".into()),
    }
}

fn vis_str(tcx: TyCtxt<'_>, d: DefId) -> String {
    match tcx.def_kind(d) {
        DefKind::Fn | DefKind::AssocFn | DefKind::Struct | DefKind::Enum | DefKind::Union | DefKind::Const { .. } | DefKind::AssocConst { .. } | DefKind::Field | DefKind::Mod | DefKind::Ctor(..) | DefKind::Static { .. } => {}
        _ => return "n/a".into(),
    }
    match tcx.visibility(d) {
        ty::Visibility::Public => "pub".into(),
        ty::Visibility::Restricted(m) => {
            if m.is_crate_root() {
                "crate".into()
            } else {
                format!("in:{}", dpath(tcx, m))
            }
        }
    }
}

fn adt_record<'tcx>(tcx: TyCtxt<'tcx>, adt: ty::AdtDef<'tcx>, local: bool) -> String {
    let did = adt.did();
    let mut s = format!(
        "{{\"k\":\"adt\",\"path\":{},\"kind\":\"{}\",\"local\":{}",
        esc(&dpath(tcx, did)),
        if adt.is_enum() { "enum" } else if adt.is_union() { "union" } else { "struct" },
        local
    );
    if local {
        let _ = write!(s, ",\"vis\":{}", esc(&vis_str(tcx, did)));
        if let Some(ld) = did.as_local() {
            let ev = tcx.effective_visibilities(());
            let _ = write!(s, ",\"reach\":{}", ev.is_reachable(ld));
            let sp = tcx.def_span(did);
            let lo = tcx.sess.source_map().lookup_char_pos(sp.lo());
            let _ = write!(s, ",\"file\":{},\"line\":{}", esc(&format!("{}", lo.file.name.prefer_local_unconditionally())), lo.line);
        }
        let _ = write!(s, ",\"drop\":{}", tcx.adt_destructor(did).is_some());
    }
    s.push_str(",\"variants\":[");
    let mut first = true;
    for (vidx, var) in adt.variants().iter_enumerated() {
        if !first {
            s.push(',');
        }
        first = false;
        let d: i128 = if adt.is_enum() {
            let dv = adt.discriminant_for_variant(tcx, vidx);
            let sz = rustc_abi::Size::from_bits(match dv.ty.kind() {
                ty::Int(i) => i.bit_width().unwrap_or(64),
                ty::Uint(u) => u.bit_width().unwrap_or(64),
                _ => 128,
            });
            if dv.ty.is_signed() { sz.sign_extend(dv.val) as i128 } else { dv.val as i128 }
        } else {
            0
        };
        let _ = write!(s, "{{\"n\":{},\"d\":{},\"fields\":[", esc(&var.name.to_string()), d);
        let mut ff = true;
        for f in var.fields.iter() {
            if !ff {
                s.push(',');
            }
            ff = false;
            let fty = tcx.type_of(f.did).instantiate_identity().skip_norm_wip();
            let _ = write!(
                s,
                "{{\"n\":{},\"vis\":{},\"ty\":{}}}",
                esc(&f.name.to_string()),
                esc(&if local { vis_str(tcx, f.did) } else { "n/a".into() }),
                esc(&ty_str(fty))
            );
        }
        s.push_str("]}");
    }
    s.push_str("]}");
    s
}

fn promoted_summary<'tcx>(tcx: TyCtxt<'tcx>, pb: &Body<'tcx>) -> String {
    // aggregates and scalar constants built by a promoted constant's body
    let mut items: Vec<String> = Vec::new();
    let env = TypingEnv::fully_monomorphized();
    for bb in pb.basic_blocks.iter() {
        for stmt in &bb.statements {
            if let StatementKind::Assign(b) = &stmt.kind {
                let (_pl, rv) = &**b;
                match rv {
                    Rvalue::Aggregate(k, ops) => {
                        if let AggregateKind::Adt(d, v, ..) = &**k {
                            let adt = tcx.adt_def(*d);
                            let var = adt.variant(*v);
                            items.push(format!(
                                "{{\"adt\":{},\"var\":{}}}",
                                esc(&dpath(tcx, *d)),
                                if adt.is_enum() { esc(&var.name.to_string()) } else { "null".to_string() }
                            ));
                        }
                        for o in ops.iter() {
                            if let Operand::Constant(c) = o {
                                let ty = c.const_.ty();
                                if ty.is_integral() || ty.is_bool() {
                                    if let Some(si) = c.const_.try_eval_scalar_int(tcx, env) {
                                        items.push(format!("{{\"v\":{}}}", si.to_bits_unchecked()));
                                    }
                                }
                            }
                        }
                    }
                    Rvalue::BinaryOp(_, ab) => {
                        for o in [&ab.0, &ab.1] {
                            if let Operand::Constant(c) = o {
                                let ty = c.const_.ty();
                                if ty.is_integral() || ty.is_bool() {
                                    if let Some(si) = c.const_.try_eval_scalar_int(tcx, env) {
                                        let bits = si.to_bits_unchecked();
                                        if bits != 0 {
                                            items.push(format!("{{\"v\":{}}}", bits));
                                        }
                                    }
                                }
                            }
                        }
                    }
                    Rvalue::Use(Operand::Constant(c), ..) | Rvalue::Cast(_, Operand::Constant(c), _) => {
                        let ty = c.const_.ty();
                        if let ty::Adt(adt, _) = ty.kind() {
                            if adt.is_enum() {
                                if let Some(si) = c.const_.try_eval_scalar_int(tcx, env) {
                                    let bits = si.to_bits_unchecked();
                                    for (vidx, var) in adt.variants().iter_enumerated() {
                                        if adt.discriminant_for_variant(tcx, vidx).val == bits {
                                            items.push(format!(
                                                "{{\"adt\":{},\"var\":{},\"v\":{}}}",
                                                esc(&dpath(tcx, adt.did())),
                                                esc(&var.name.to_string()),
                                                bits
                                            ));
                                        }
                                    }
                                }
                            }
                        }
                        if ty.is_integral() || ty.is_bool() {
                            if let Some(si) = c.const_.try_eval_scalar_int(tcx, env) {
                                items.push(format!("{{\"v\":{}}}", si.to_bits_unchecked()));
                            }
                        }
                        if let Const::Unevaluated(uv, _) = c.const_ {
                            if uv.promoted.is_none() {
                                items.push(format!("{{\"p\":{}}}", esc(&dpath(tcx, uv.def))));
                            }
                        }
                    }
                    _ => {}
                }
            }
        }
    }
    format!("[{}]", items.join(","))
}

fn body_facts<'tcx>(tcx: TyCtxt<'tcx>, def: LocalDefId, body: &Body<'tcx>, promoted: &str) {
    let did = def.to_def_id();
    let path = dpath(tcx, did);
    let focus = is_focus(&path);
    let kind = tcx.def_kind(did);
    let kind_s = match kind {
        DefKind::Fn => "fn",
        DefKind::AssocFn => "method",
        DefKind::Closure => {
            if tcx.is_coroutine(did) {
                "coroutine"
            } else {
                "closure"
            }
        }
        DefKind::Const { .. } | DefKind::AssocConst { .. } | DefKind::AnonConst | DefKind::InlineConst => "const",
        DefKind::Static { .. } => "static",
        _ => "other",
    };
    let root = tcx.typeck_root_def_id(did);
    let parent = tcx.opt_parent(did).map(|p| dpath(tcx, p)).unwrap_or_default();
    let sp = tcx.def_span(did);
    let lo = tcx.sess.source_map().lookup_char_pos(sp.lo());
    let file = format!("{}", lo.file.name.prefer_local_unconditionally());
    let env = TypingEnv::post_analysis(tcx, did);
    let cx = Cx { tcx, body, env, def: did };
    let _ = cx.def;

    let mut s = String::with_capacity(4096);
    let _ = write!(
        s,
        "{{\"k\":\"body\",\"fn\":{},\"kind\":\"{}\",\"parent\":{},\"root\":{},\"file\":{},\"line\":{},\"focus\":{},\"argc\":{}",
        esc(&path),
        kind_s,
        esc(&parent),
        esc(&dpath(tcx, root)),
        esc(&file),
        lo.line,
        focus,
        body.arg_count
    );
    if matches!(kind, DefKind::Fn | DefKind::AssocFn) {
        let _ = write!(s, ",\"vis\":{}", esc(&vis_str(tcx, did)));
        #[allow(deprecated)]
        let mu = rustc_hir::find_attr!(tcx, did, MustUse { .. });
        if mu {
            s.push_str(",\"must_use\":true");
        }
        if tcx.asyncness(did).is_async() {
            s.push_str(",\"async\":true");
        }
    }
    let _ = write!(s, ",\"ret\":{}", esc(&ty_str(body.return_ty())));
    if focus && promoted.len() > 2 {
        let _ = write!(s, ",\"promoted\":{}", promoted);
    }

    // call-only summary (always emitted)
    let mut calls: BTreeSet<String> = BTreeSet::new();
    let mut aggs: BTreeSet<String> = BTreeSet::new();
    let mut clos: BTreeSet<String> = BTreeSet::new();
    let mut fws: BTreeSet<String> = BTreeSet::new();
    let mut fnrefs: BTreeSet<String> = BTreeSet::new();

    let mut bbs = String::new();
    if focus {
        bbs.push_str(",\"bbs\":[");
    }
    for (bbi, bb) in body.basic_blocks.iter_enumerated() {
        let mut st = String::new();
        let mut firsts = true;
        for stmt in &bb.statements {
            if let StatementKind::Assign(b) = &stmt.kind {
                let (pl, rv) = &**b;
                // summaries
                if let Rvalue::Aggregate(k, _) = rv {
                    match &**k {
                        AggregateKind::Adt(d, v, ..) => {
                            let adt = tcx.adt_def(*d);
                            if adt.is_enum() {
                                aggs.insert(format!("{}::{}", dpath(tcx, *d), adt.variant(*v).name));
                            } else {
                                aggs.insert(dpath(tcx, *d));
                            }
                        }
                        AggregateKind::Closure(d, _) | AggregateKind::Coroutine(d, _) | AggregateKind::CoroutineClosure(d, _) => {
                            clos.insert(dpath(tcx, *d));
                        }
                        _ => {}
                    }
                }
                // fn items used as values
                let mut note_op = |o: &Operand<'tcx>| {
                    if let Operand::Constant(c) = o {
                        if let ty::FnDef(d, _) = c.const_.ty().kind() {
                            fnrefs.insert(dpath(tcx, *d));
                        }
                    }
                };
                match rv {
                    Rvalue::Use(o, ..) | Rvalue::Cast(_, o, _) | Rvalue::Repeat(o, _) => note_op(o),
                    Rvalue::Aggregate(_, ops) => ops.iter().for_each(|o| note_op(o)),
                    _ => {}
                }
                // field write: last Field projection on an ADT
                let mut last_field: Option<String> = None;
                for (base, elem) in pl.iter_projections() {
                    if let ProjectionElem::Field(f, _) = elem {
                        let bt = base.ty(&body.local_decls, tcx);
                        if let ty::Adt(..) = bt.ty.kind() {
                            last_field = Some(cx.field_name(bt, f));
                        } else {
                            last_field = None;
                        }
                    }
                }
                if let Some(lf) = last_field {
                    fws.insert(lf);
                }
                if focus {
                    if !firsts {
                        st.push(',');
                    }
                    firsts = false;
                    let (ln, exp) = cx.line(stmt.source_info.span);
                    let _ = write!(st, "[{},{},{},{}]", cx.place(pl), cx.rvalue(rv), ln, if exp { 1 } else { 0 });
                }
            } else if let StatementKind::SetDiscriminant { place, variant_index } = &stmt.kind {
                if focus {
                    if !firsts {
                        st.push(',');
                    }
                    firsts = false;
                    let (ln, exp) = cx.line(stmt.source_info.span);
                    let _ = write!(st, "[{},{{\"op\":\"setdiscr\",\"v\":{}}},{},{}]", cx.place(place), variant_index.as_usize(), ln, if exp { 1 } else { 0 });
                }
            }
        }
        let term = bb.terminator();
        let (ln, exp) = cx.line(term.source_info.span);
        let bbn = |b: &rustc_middle::mir::BasicBlock| b.as_usize();
        let uw = |u: &rustc_middle::mir::UnwindAction| match u {
            rustc_middle::mir::UnwindAction::Cleanup(b) => format!("{}", b.as_usize()),
            _ => "null".to_string(),
        };
        let t = match &term.kind {
            TerminatorKind::Goto { target } => format!("{{\"t\":\"goto\",\"to\":{}}}", bbn(target)),
            TerminatorKind::SwitchInt { discr, targets } => {
                let tg: Vec<String> = targets.iter().map(|(v, b)| format!("[{},{}]", v, bbn(&b))).collect();
                format!(
                    "{{\"t\":\"switch\",\"on\":{},\"tg\":[{}],\"else\":{},\"ln\":{},\"x\":{}}}",
                    cx.operand(discr),
                    tg.join(","),
                    bbn(&targets.otherwise()),
                    ln,
                    if exp { 1 } else { 0 }
                )
            }
            TerminatorKind::UnwindResume => "{\"t\":\"resume\"}".into(),
            TerminatorKind::UnwindTerminate(_) => "{\"t\":\"abort\"}".into(),
            TerminatorKind::Return => format!("{{\"t\":\"ret\",\"ln\":{}}}", ln),
            TerminatorKind::Unreachable => "{\"t\":\"unreachable\"}".into(),
            TerminatorKind::Drop { place, target, unwind, .. } => {
                format!("{{\"t\":\"drop\",\"pl\":{},\"to\":{},\"uw\":{},\"ln\":{}}}", cx.place(place), bbn(target), uw(unwind), ln)
            }
            TerminatorKind::Call { func, args, destination, target, unwind, .. } => {
                let (cj, primary) = cx.callee(func);
                if let Some(p) = primary {
                    calls.insert(p);
                }
                if let Operand::Constant(c) = func {
                    if let ty::FnDef(d, _) = c.const_.ty().kind() {
                        calls.insert(dpath(tcx, *d));
                    }
                }
                for a in args.iter() {
                    if let Operand::Constant(c) = &a.node {
                        if let ty::FnDef(d, _) = c.const_.ty().kind() {
                            fnrefs.insert(dpath(tcx, *d));
                        }
                    }
                }
                format!(
                    "{{\"t\":\"call\",{},\"a\":{},\"d\":{},\"to\":{},\"uw\":{},\"ln\":{},\"x\":{}}}",
                    cj,
                    cx.operands(args.iter().map(|a| &a.node)),
                    cx.place(destination),
                    target.map(|b| format!("{}", b.as_usize())).unwrap_or_else(|| "null".into()),
                    uw(unwind),
                    ln,
                    if exp { 1 } else { 0 }
                )
            }
            TerminatorKind::TailCall { func, args, .. } => {
                let (cj, primary) = cx.callee(func);
                if let Some(p) = primary {
                    calls.insert(p);
                }
                format!("{{\"t\":\"tailcall\",{},\"a\":{},\"ln\":{}}}", cj, cx.operands(args.iter().map(|a| &a.node)), ln)
            }
            TerminatorKind::Assert { cond, expected, msg, target, unwind } => {
                let (k, ops) = assert_kind(&cx, msg);
                format!(
                    "{{\"t\":\"assert\",\"cond\":{},\"exp\":{},\"msg\":{},\"ops\":{},\"to\":{},\"uw\":{},\"ln\":{},\"x\":{}}}",
                    cx.operand(cond),
                    expected,
                    esc(&k),
                    ops,
                    bbn(target),
                    uw(unwind),
                    ln,
                    if exp { 1 } else { 0 }
                )
            }
            TerminatorKind::Yield { value, resume, resume_arg, drop } => format!(
                "{{\"t\":\"yield\",\"v\":{},\"to\":{},\"ra\":{},\"drop\":{},\"ln\":{}}}",
                cx.operand(value),
                bbn(resume),
                cx.place(resume_arg),
                drop.map(|b| format!("{}", b.as_usize())).unwrap_or_else(|| "null".into()),
                ln
            ),
            TerminatorKind::CoroutineDrop => "{\"t\":\"codrop\"}".into(),
            TerminatorKind::FalseEdge { real_target, imaginary_target } => {
                format!("{{\"t\":\"fedge\",\"to\":{},\"imag\":{}}}", bbn(real_target), bbn(imaginary_target))
            }
            TerminatorKind::FalseUnwind { real_target, unwind } => {
                format!("{{\"t\":\"funwind\",\"to\":{},\"uw\":{}}}", bbn(real_target), uw(unwind))
            }
            TerminatorKind::InlineAsm { .. } => "{\"t\":\"asm\"}".into(),
        };
        if focus {
            if bbi.as_usize() > 0 {
                bbs.push(',');
            }
            let _ = write!(bbs, "{{\"s\":[{}],\"t\":{}{}}}", st, t, if bb.is_cleanup { ",\"c\":1" } else { "" });
        }
    }
    if focus {
        bbs.push(']');
        // locals
        let mut names: BTreeMap<usize, String> = BTreeMap::new();
        for vdi in &body.var_debug_info {
            if let rustc_middle::mir::VarDebugInfoContents::Place(p) = &vdi.value {
                if p.projection.is_empty() {
                    names.entry(p.local.as_usize()).or_insert_with(|| vdi.name.to_string());
                }
            }
        }
        bbs.push_str(",\"locals\":[");
        for (i, ld) in body.local_decls.iter_enumerated() {
            if i.as_usize() > 0 {
                bbs.push(',');
            }
            let _ = write!(bbs, "[{}", esc(&ty_str(ld.ty)));
            if let Some(n) = names.get(&i.as_usize()) {
                let _ = write!(bbs, ",{}", esc(n));
            }
            bbs.push(']');
        }
        bbs.push(']');
    }
    let js = |set: &BTreeSet<String>| -> String {
        let v: Vec<String> = set.iter().map(|x| esc(x)).collect();
        format!("[{}]", v.join(","))
    };
    let _ = write!(s, ",\"calls\":{},\"aggs\":{},\"clos\":{},\"fw\":{},\"fnrefs\":{}", js(&calls), js(&aggs), js(&clos), js(&fws), js(&fnrefs));
    s.push_str(&bbs);
    s.push('}');
    OUT.lock().unwrap().push(s);
}

fn hook<'tcx>(tcx: TyCtxt<'tcx>, def: LocalDefId) -> rustc_middle::queries::mir_borrowck::ProvidedValue<'tcx> {
    // Read the not-yet-stolen mir_promoted of this typeck root and of all nested bodies.
    let mut defs = vec![def];
    for n in tcx.nested_bodies_within(def) {
        defs.push(n);
    }
    for d in defs {
        let (steal, psteal) = tcx.mir_promoted(d);
        if steal.is_stolen() {
            OUT.lock().unwrap().push(format!("{{\"k\":\"stolen\",\"fn\":{}}}", esc(&dpath(tcx, d.to_def_id()))));
            continue;
        }
        let body = steal.borrow();
        let mut prom = String::from("[");
        if !psteal.is_stolen() {
            let pbs = psteal.borrow();
            let mut first = true;
            for pb in pbs.iter() {
                if !first {
                    prom.push(',');
                }
                first = false;
                prom.push_str(&promoted_summary(tcx, pb));
            }
        }
        prom.push(']');
        body_facts(tcx, d, &body, &prom);
    }
    (rustc_interface::DEFAULT_QUERY_PROVIDERS.queries.mir_borrowck)(tcx, def)
}

struct Cb;

impl Callbacks for Cb {
    fn config(&mut self, config: &mut rustc_interface::Config) {
        config.override_queries = Some(|_sess, providers| {
            providers.queries.mir_borrowck = hook;
        });
    }

    fn after_analysis<'tcx>(&mut self, _compiler: &rustc_interface::interface::Compiler, tcx: TyCtxt<'tcx>) -> Compilation {
        // crate-level tables
        let mut recs: Vec<String> = Vec::new();
        let items = tcx.hir_crate_items(());
        for ld in items.definitions() {
            let did = ld.to_def_id();
            match tcx.def_kind(did) {
                DefKind::Struct | DefKind::Enum | DefKind::Union => {
                    recs.push(adt_record(tcx, tcx.adt_def(did), true));
                }
                DefKind::Const { .. } | DefKind::AssocConst { .. } => {
                    let generics = tcx.generics_of(did);
                    if generics.count() != 0 || (generics.parent.is_some() && tcx.generics_of(generics.parent.unwrap()).count() != 0) {
                        continue;
                    }
                    if matches!(tcx.def_kind(did), DefKind::AssocConst { .. }) {
                        // trait-declared assoc consts without default cannot be evaluated
                        if let Some(p) = tcx.opt_parent(did) {
                            if matches!(tcx.def_kind(p), DefKind::Trait) {
                                continue;
                            }
                        }
                    }
                    let ty = tcx.type_of(did).instantiate_identity().skip_norm_wip();
                    let mut v: Option<i128> = None;
                    if let Ok(cv) = tcx.const_eval_poly(did) {
                        if let Some(si) = cv.try_to_scalar_int() {
                            let bits = si.to_bits_unchecked();
                            v = Some(if ty.is_signed() { si.size().sign_extend(bits) as i128 } else { bits as i128 });
                        }
                    }
                    recs.push(format!(
                        "{{\"k\":\"const\",\"path\":{},\"ty\":{},\"v\":{},\"vis\":{}}}",
                        esc(&dpath(tcx, did)),
                        esc(&ty_str(ty)),
                        v.map(|x| x.to_string()).unwrap_or_else(|| "null".into()),
                        esc(&vis_str(tcx, did))
                    ));
                }
                DefKind::Fn | DefKind::AssocFn => {
                    // signature-only record (covers trait method declarations and bodies alike)
                    let ev = tcx.effective_visibilities(());
                    recs.push(format!(
                        "{{\"k\":\"fnitem\",\"path\":{},\"vis\":{},\"reach\":{}}}",
                        esc(&dpath(tcx, did)),
                        esc(&vis_str(tcx, did)),
                        ev.is_reachable(ld)
                    ));
                }
                _ => {}
            }
        }
        // trait impls: (trait path, self type)
        for (tr, impls) in tcx.all_local_trait_impls(()).iter() {
            let tp = dpath(tcx, *tr);
            for i in impls {
                let self_ty = tcx.type_of(i.to_def_id()).instantiate_identity().skip_norm_wip();
                let mut adtp = String::new();
                if let ty::Adt(a, _) = self_ty.kind() {
                    adtp = dpath(tcx, a.did());
                }
                let mut methods: Vec<String> = Vec::new();
                for it in tcx.associated_items(i.to_def_id()).in_definition_order() {
                    if matches!(it.kind, ty::AssocKind::Fn { .. }) {
                        let tm = it.trait_item_def_id().map(|d| dpath(tcx, d)).unwrap_or_default();
                        methods.push(format!("[{},{}]", esc(&tm), esc(&dpath(tcx, it.def_id))));
                    }
                }
                recs.push(format!(
                    "{{\"k\":\"impl\",\"trait\":{},\"self\":{},\"adt\":{},\"methods\":[{}]}}",
                    esc(&tp),
                    esc(&ty_str(self_ty)),
                    esc(&adtp),
                    methods.join(",")
                ));
            }
        }
        let mut out = OUT.lock().unwrap();
        let n_bodies = out.iter().filter(|l| l.starts_with("{\"k\":\"body\"")).count();
        let n_focus = out.iter().filter(|l| l.contains("\"focus\":true")).count();
        let n_stolen = out.iter().filter(|l| l.starts_with("{\"k\":\"stolen\"")).count();
        let hdr = format!(
            "{{\"k\":\"hdr\",\"crate\":{},\"n_bodies\":{},\"n_focus\":{},\"n_stolen\":{},\"rustc\":{},\"tree_hash\":{},\"features\":{}}}",
            esc(&tcx.crate_name(rustc_hir::def_id::LOCAL_CRATE).to_string()),
            n_bodies,
            n_focus,
            n_stolen,
            esc(option_env!("CFG_VERSION").unwrap_or("nightly")),
            esc(&std::env::var("RSM_FACTS_TREE_HASH").unwrap_or_default()),
            esc(&std::env::var("RSM_FACTS_FEATURES").unwrap_or_default()),
        );
        if let Ok(p) = std::env::var("RSM_FACTS_OUT") {
            let mut all = String::new();
            all.push_str(&hdr);
            all.push('\n');
            for r in recs.iter() {
                all.push_str(r);
                all.push('\n');
            }
            for r in out.iter() {
                all.push_str(r);
                all.push('\n');
            }
            let tmp = format!("{}.tmp.{}", p, std::process::id());
            std::fs::write(&tmp, all).expect("write facts");
            std::fs::rename(&tmp, &p).expect("rename facts");
        }
        out.clear();
        Compilation::Continue
    }
}

struct NoCb;
impl Callbacks for NoCb {}

fn main() {
    let mut args: Vec<String> = std::env::args().collect();
    // RUSTC_WORKSPACE_WRAPPER: argv[1] is the real rustc path
    if args.len() > 1 && (args[1].ends_with("rustc") || args[1].contains("/rustc")) {
        args.remove(1);
    }
    let want = std::env::var("RSM_FACTS_CRATE").unwrap_or_else(|_| "rs_matter".to_string());
    let mut crate_name = String::new();
    let mut i = 0;
    while i < args.len() {
        if args[i] == "--crate-name" && i + 1 < args.len() {
            crate_name = args[i + 1].clone();
        }
        i += 1;
    }
    let is_build_script = crate_name.starts_with("build_script");
    let is_test = args.iter().any(|a| a == "--test");
    let target = crate_name == want && !is_build_script && !is_test && std::env::var("RSM_FACTS_OUT").is_ok();
    if target {
        if let Ok(fp) = std::env::var("RSM_FACTS_FOCUS") {
            let txt = std::fs::read_to_string(&fp).expect("focus file");
            let mut inc = Vec::new();
            let mut exc = Vec::new();
            for l in txt.lines() {
                let l = l.trim();
                if l.is_empty() || l.starts_with('#') {
                    continue;
                }
                if let Some(r) = l.strip_prefix('!') {
                    exc.push(r.trim().to_string());
                } else {
                    inc.push(l.to_string());
                }
            }
            *FOCUS.lock().unwrap() = Some((inc, exc));
        }
        if let Ok(t) = std::env::var("RSM_FACTS_THREADS") {
            args.push(format!("-Zthreads={}", t));
        }
        rustc_driver::run_compiler(&args, &mut Cb);
    } else {
        rustc_driver::run_compiler(&args, &mut NoCb);
    }
}
