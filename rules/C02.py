"""C02 - PASE admits only a peer that knows the passcode, only while a window is open."""
from common import (equality_tests, bodies_of, mentions, false_edges_of_cmp, true_edges_of_cmp, closure_in, async_body, closure_arg_sites,
                    ok_return_bbs, variant_bbs, call_bbs, named_local, src_calls, src_fields, src_consts,
                    result_used, RESULT)
from facts import AnchorLost, op_place, op_local
import prims

EXPLANATION = """
Static structural rules over the MIR of sc::pase::{responder,spake2p}, sc::pase and lib.rs:
(a) in PaseResponder::handle_pasepake3 the calls ReservedSession::update / complete, the with_state(FailSafe::arm)
site and the construction of SessionEstablishmentSuccess are unreachable once the Ok edge of Spake2P::verify is
deleted; in Spake2P::verify the Ok is cut by the TRUE edge of ct_eq(ca, self.ca).unwrap_u8() == 1 and the
comparison is subtle's constant-time one; (b) in setup_verifier every use of the prover share (transcript hash, key
confirmation) is cut by the TRUE edge of is_valid_pubkey; (c) the window is re-checked: verifier read / setup_verifier
is cut by the Some edge of Pase::comm_window(), check_comm_window_timeout precedes it, and the reply send is cut by
has_comm_window; (d) failure accounting: from the Err edge and the Ok(false) edge of the handshake result every path
reaches the record_pake_failure site; pake_failures has confined writers; the revocation constant evaluates to 20 and
is compared with >=, whose true edge is the only way to close_comm_window there; (e) every mutation of Pase.comm_window
is followed by the mdns notifier on every path, mutators are confined, Matter::mdns_services emits the commissionable
record only on the Some edge of comm_window(), and the periodic check_timeouts reaches check_comm_window_timeout;
(f) session_timeout writers confined; (g) results of verify / is_valid_pubkey / setup_verifier never dropped.
"""
CLAUSES = ['a: session only after cA verified (constant-time)', 'b: prover share validated before use',
           'c: window re-checked at PBKDFParamRequest and Pake1; the expiry verdict depends on the window alone', 'd: every failed proof counted, revoke at 20; no uncounted ending once Pake2 is out',
           'e: advertised iff window open (structure); the emission depends on the window alone', 'f: single handshake marker writers; the slot is taken over only by its owner', 'g: results not dropped']
NOT_DECIDED = ['SPAKE2+ mathematics and transcript binding', 'expiry polling period timing', 'interleavings with a concurrent second initiator']
MIN_OBLIGATIONS = {'q': 30, 'd': 30, 'r': 30}

PR = 'sc::pase::responder::PaseResponder'
SP = 'sc::pase::spake2p::Spake2P'
PASE = 'sc::pase::Pase'
WITH_STATE = 'transport::exchange::Exchange::with_state'
COMPLETE = 'transport::session::ReservedSession::complete'
UPD = 'transport::session::ReservedSession::update'
SC = 'sc::SCStatusCodes'


def _site_edges(R, body, sites, inner=0):
    e = set()
    for s in sites:
        e |= prims.track_result(R.facts, body, s, inner=inner).success
    return e


def check(R):
    F = R.facts
    # ---- a ---------------------------------------------------------------------
    with R.clause('a'):
        pass
        co = async_body(R, PR + '::handle_pasepake3')
        g = lambda: R.call_guard(co, SP + '::verify')
        R.cut('P2', co, 'ReservedSession::update', call_bbs(co, UPD), 'Spake2P::verify Ok', g)
        R.cut('P2', co, 'ReservedSession::complete()', call_bbs(co, COMPLETE), 'Spake2P::verify Ok', g)
        arm = closure_in(R, PR + '::handle_pasepake3', ['FailSafe::arm'])
        asites = closure_arg_sites(co, arm.fn, (WITH_STATE,))
        R.floor('with_state(arm fail-safe)', len(asites), 1)
        R.cut('P2', co, 'arm the fail-safe', [s.bb for s in asites], 'Spake2P::verify Ok', g)
        R.cut('P2', co, 'construct SessionEstablishmentSuccess', variant_bbs(co, SC, 'SessionEstablishmentSuccess'), 'Spake2P::verify Ok', g)
        # PASE session identity: fab_idx 0, no node ids (constant operands)
        v = R.body(SP + '::verify')
        oks = ok_return_bbs(v)
        R.floor('Ok return of Spake2P::verify', len(oks), 1)
        R.cut('P2', v, 'return Ok(keys)', oks, 'ct_eq(ca, self.ca).unwrap_u8() == 1',
              lambda: true_edges_of_cmp(v, 'Eq', lambda s: 'subtle::Choice::unwrap_u8' in src_calls(s), lambda s: 1 in src_consts(s)))
        cts = v.calls('subtle::ConstantTimeEq::ct_eq')
        R.floor('ct_eq in Spake2P::verify', len(cts), 1)
        srcs = set()
        for a in cts[0].d['a']:
            srcs |= prims.sources(v, a, through={'crypto::canon::CryptoSensitive::access', 'crypto::canon::CryptoSensitiveRef::access'})
        R.expect('P10', v.fn, 'constant-time comparison is between the received cA and the computed self.ca',
                 mentions(srcs, 'ca') and ('arg', 2) in srcs, 'ct_eq(ca_param, self.ca)', f'sources {sorted(map(str, srcs))[:8]}', v.where(cts[0].bb))
        # no non-constant-time comparison of self.ca anywhere
        bad = []
        for b in F.bodies.values():
            if not b.focus or not b.fn.startswith('sc::pase'):
                continue
            for (bb, j, o, a1, a2, d) in prims.compare_sites(b, ops=('Eq', 'Ne')):
                for a in (a1, a2):
                    p = op_place(a)
                    if p and any(isinstance(x, str) and x.startswith('.ca:' + SP) for x in p[1:]):
                        bad.append(b.where(bb))
            for t in b.calls('core::cmp::PartialEq::eq', 'core::cmp::PartialEq::ne'):
                s = set()
                for a in t.d['a']:
                    s |= prims.sources(b, a)
                if any(f.startswith('ca:' + SP) for f in src_fields(s)):
                    bad.append(b.where(t.bb))
        R.expect('P1', SP, 'self.ca is never compared with a variable-time ==', not bad, 'no ==/!= on Spake2P.ca', f'variable-time comparison at {bad}')

    # ---- b ---------------------------------------------------------------------
    with R.clause('b'):
        pass
        sv = R.body(SP + '::setup_verifier')
        gv = lambda: R.call_guard(sv, 'crypto::EcPoint::is_valid_pubkey', inner=1)
        for nm in (SP + '::compute_verifier_tt_hash', SP + '::compute_ke_ca_cb', SP + '::compute_b_pt_xy'):
            R.cut('P2', sv, nm.split('::')[-1], call_bbs(sv, nm), 'is_valid_pubkey(pA) == true', gv)
        R.cut('P2', sv, 'return Ok', ok_return_bbs(sv), 'is_valid_pubkey(pA) == true', gv)
        ivp = sv.calls('crypto::EcPoint::is_valid_pubkey')[0]
        s = prims.sources(sv, ivp.d['a'][0], through={'crypto::Crypto::ec_point'})
        R.expect('P10', sv.fn, 'the validated point is the prover share a_pt', ('arg', 4) in s, 'is_valid_pubkey(ec_point(a_pt))',
                 f'sources {sorted(map(str, s))[:6]}', sv.where(ivp.bb))

    # ---- c ---------------------------------------------------------------------
    with R.clause('c'):
        pass
        for fn, use_desc, use in ((PR + '::handle_pbkdfparamrequest', 'read comm_window.verifier', None),
                                  (PR + '::handle_pasepake1', 'Spake2P::setup_verifier', SP + '::setup_verifier')):
            co = async_body(R, fn)
            clo = closure_in(R, fn, ['Pase::comm_window', 'Pase::check_comm_window_timeout'])
            gsome = lambda clo=clo: R.call_guard(clo, PASE + '::comm_window')
            if use:
                ubbs = call_bbs(clo, use)
            else:
                ubbs = sorted({i for i, j, s in clo.stmts() for o in ([s[1].get('pl')] if s[1].get('op') in ('ref', 'discr') else [op_place(a) for a in s[1].get('a', ())])
                               if o and any(isinstance(x, str) and x.startswith('.verifier:sc::pase::CommWindow') for x in o[1:])})
                R.floor('reads of CommWindow.verifier', len(ubbs), 1)
            R.cut('P2', clo, use_desc, ubbs, 'Pase::comm_window() is Some', gsome)
            # Ok(true) only on the Some edge
            trues = [i for i, j, s in clo.stmts() if s[1].get('op') == 'agg' and s[1].get('var') == 'Ok' and s[1]['a'] and s[1]['a'][0].get('k', {}).get('v') == 1]
            R.floor('Ok(true) in window closure', len(trues), 1)
            R.cut('P2', clo, 'return Ok(true)', trues, 'Pase::comm_window() is Some', gsome)
            miss = prims.precedes(clo, call_bbs(clo, PASE + '::check_comm_window_timeout'), call_bbs(clo, PASE + '::comm_window'))
            R.expect('P3', clo.fn, 'check_comm_window_timeout precedes comm_window()', not miss, 'expiry is evaluated first on every path',
                     f'comm_window() reachable without the expiry check at {[clo.where(b) for b in miss]}')
            # parent: reply only if has_comm_window
            hs = named_local(co, 'has_comm_window')
            te = set()
            for l in hs:
                te |= prims.bool_local_edges(co, l)[0]
            sends = [t.bb for t in co.calls('transport::exchange::Exchange::send_with')]
            R.floor('send_with in ' + fn, len(sends), 1)
            R.cut('P2', co, 'send the PASE reply', sends, 'has_comm_window == true', te)
            sites = closure_arg_sites(co, clo.fn, (WITH_STATE,))
            R.floor('with_state(window closure)', len(sites), 1)
            ss = set()
            for l in hs:
                ss |= prims.sources(co, l)
            R.expect('P10', co.fn, 'has_comm_window is the window closure\'s result',
                     any(x[0] == 'call' and x[1] == WITH_STATE and x[2] == sites[0].bb for x in ss) and not [c for c in src_consts(ss) if c is not None],
                     'has_comm_window <= with_state(window closure)', f'sources {sorted(map(str, ss))[:6]}', co.where(sites[0].bb))

    with R.clause('c2'):
        p1 = [b for b in bodies_of(F, PR + '::handle_pasepake1') if SP + '::setup_verifier' in b.calls_summary]
        R.floor('setup_verifier call in handle_pasepake1', len(p1), 1)
        tsv = p1[0].calls(SP + '::setup_verifier')[0]
        vs = prims.sources(p1[0], tsv.d['a'][2])
        R.expect('P10', p1[0].fn, 'the verifier used at Pake1 is the currently open window\'s (read under the same state borrow)', PASE + '::comm_window' in src_calls(vs),
                 'setup_verifier(.., &comm_window.verifier, ..)', f'verifier sources {sorted(map(str, vs))[:5]}: not the window returned by Pase::comm_window() at this point', p1[0].where(tsv.bb))
    # ---- d ---------------------------------------------------------------------
    with R.clause('d'):
        pass
        co = async_body(R, PR + '::handle')
        rec = closure_in(R, PR + '::handle', ['Pase::record_pake_failure'])
        rsites = closure_arg_sites(co, rec.fn, (WITH_STATE,))
        R.floor('with_state(record_pake_failure)', len(rsites), 1)
        res = named_local(co, 'result')
        err_edges, _ = prims.enum_local_edges(F, co, lambda pl: pl[0] in res and len(pl) == 1, RESULT, ['Err'])
        okfalse = set()
        for i, blk in enumerate(co.bbs):
            t = blk['t']
            if t['t'] == 'switch' and not blk.get('c'):
                p = op_place(t['on'])
                if p and p[0] in res and len(p) == 3 and p[1] == '@Ok':
                    for val, b in t['tg']:
                        if val == 0:
                            okfalse.add((i, b))
        R.expect('P2', co.fn, 'handshake result is classified: Err edge and Ok(false) edge exist', bool(err_edges) and bool(okfalse),
                 f'Err edges {sorted(err_edges)}, Ok(false) edges {sorted(okfalse)}', f'Err edges {sorted(err_edges)}, Ok(false) edges {sorted(okfalse)}')
        rbbs = {s.bb for s in rsites}
        for nm, edges in (('Err(_)', err_edges), ('Ok(false)', okfalse)):
            bad = []
            for (frm, to) in edges:
                r = prims.reach(co, (to,), cut_blocks=rbbs)
                if set(co.ret_blocks()) & r:
                    bad.append(co.where(frm))
            R.expect('P3', co.fn, f'every path from result = {nm} reaches record_pake_failure', not bad and bool(edges),
                     'the failure is recorded before handle() returns', f'a path from {bad} returns without recording the failure',
                     where=co.where(sorted(rbbs)[0]))
        R.expect('P3', rec.fn, 'the recording closure calls record_pake_failure unconditionally',
                 not prims.precedes(rec, call_bbs(rec, PASE + '::record_pake_failure'), rec.ret_blocks()),
                 'record_pake_failure on every path', 'a path through the closure skips record_pake_failure')
        # once Pake2 is out the peer can test one passcode guess offline: from there on the handshake ends uncounted (a constant Ok(true))
        # only when its establishment slot was lost to another handshake; every other ending is the verdict of Pake3 or an error
        hi = async_body(R, PR + '::handle_inner')
        p1 = hi.calls(PR + '::handle_pasepake1')
        R.floor('handle_pasepake1 in handle_inner', len(p1), 1)
        tr1 = prims.track_result(F, hi, p1[0], inner=1)
        R.floor('Ok(true) edge of handle_pasepake1', len(tr1.success), 1)
        slot_lost = set()
        for t in hi.calls(PR + '::update_session_timeout'):
            slot_lost |= prims.track_result(F, hi, t, inner=1).failure
        const_true = sorted({i for i, j, st in hi.stmts() if st[1].get('op') == 'agg' and st[1].get('var') == 'Ok' and str(st[1].get('adt', '')).endswith('result::Result')
                             and st[1]['a'] and st[1]['a'][0].get('k', {}).get('v') == 1 and st[1]['a'][0].get('k', {}).get('ty') == 'bool'})
        var_ok = [(i, st) for i, j, st in hi.stmts() if st[1].get('op') == 'agg' and st[1].get('var') == 'Ok' and str(st[1].get('adt', '')).endswith('result::Result')
                  and st[1]['a'] and op_place(st[1]['a'][0]) and hi.locals[op_place(st[1]['a'][0])[0]][0] == 'bool']
        R.floor('constant Ok(true) results of handle_inner', len(const_true), 3)
        for (frm, to) in sorted(tr1.success):
            R.cut_from('P2', hi, to, 'end the handshake uncounted (constant Ok(true)) after Pake2 was disclosed', const_true,
                       'the establishment slot was lost to another handshake (update_session_timeout == false)', slot_lost)
        R.floor('Ok(<verdict>) result of handle_inner', len(var_ok), 1)
        for i, st in var_ok:
            sc_ = src_calls(prims.sources(hi, st[1]['a'][0]))
            R.expect('P10', hi.fn, 'the counted / uncounted verdict after Pake3 is handle_pasepake3\'s', PR + '::handle_pasepake3' in sc_,
                     'Ok(success) <= handle_pasepake3', f'verdict derives from {sorted(sc_)[:6]}', hi.where(i))
        # counter confinement and the constant
        R.writers_confined('P1', 'pake_failures:sc::pase::CommWindow', {PASE + '::record_pake_failure', 'sc::pase::CommWindow::init',
                           'sc::pase::CommWindow::init_with_pw', 'sc::pase::CommWindow::new', 'sc::pase::CommWindow::new_with_pw'})
        rp = R.body(PASE + '::record_pake_failure')
        cmpz = [(bb, o, a, b, d) for (bb, j, o, a, b, d) in prims.compare_sites(rp)
                if any(f.startswith('pake_failures:') for f in src_fields(prims.sources(rp, a)) | src_fields(prims.sources(rp, b)))]
        R.floor('comparison of pake_failures', len(cmpz), 1)
        for (bb, o, a, b, d) in cmpz:
            lhs_is_field = any(f.startswith('pake_failures:') for f in src_fields(prims.sources(rp, a)))
            k = (b if lhs_is_field else a).get('k', {})
            val = k.get('v')
            opn = o if lhs_is_field else {'Ge': 'Le', 'Le': 'Ge', 'Gt': 'Lt', 'Lt': 'Gt'}.get(o, o)
            good = (opn == 'Ge' and val == 20) or (opn == 'Gt' and val == 19)
            R.expect('P6', rp.fn, 'window revoked when pake_failures >= 20', good, f'pake_failures {opn} {val}',
                     f'comparison is pake_failures {opn} {val}; the property fixes twenty failed proofs', rp.where(bb))
        # the increment: +1 saturating
        inc = rp.calls('core::num::<impl u8>::saturating_add')
        R.expect('P6', rp.fn, 'each failure increments the counter by exactly one',
                 len(inc) == 1 and inc[0].d['a'][1].get('k', {}).get('v') == 1, 'saturating_add(1)', 'counter increment is not saturating_add(1)')
        incs = [i for i, j, s_ in rp.field_writes('pake_failures:sc::pase::CommWindow')]
        wsome = set()
        for t in rp.calls('utils::maybe::Maybe::as_opt_mut'):
            wsome |= prims.track_result(F, rp, t).success
        badi = prims.always_followed_by(rp, [e[1] for e in wsome], incs) if wsome and incs else ['missing']
        R.expect('P3', rp.fn, 'with a window open every recorded failure increments the counter (no further condition)', not badi, 'window Some -> pake_failures += 1 on every path',
                 'a path with an open window returns without counting the failure')
        R.expect('P10', rp.fn, 'record_pake_failure takes no handshake identity to filter on', rp.argc == 3, f'{rp.argc - 1} parameters', f'{rp.argc - 1} parameters: the count can be made conditional on the caller')
        rev = named_local(rp, 'revoke')
        te = set()
        for l in rev:
            te |= prims.bool_local_edges(rp, l)[0]
        R.cut('P2', rp, 'close_comm_window', call_bbs(rp, PASE + '::close_comm_window'), 'revoke == true', te)
        bad = prims.always_followed_by(rp, [e[1] for e in te], call_bbs(rp, PASE + '::close_comm_window'))
        R.expect('P3', rp.fn, 'revoke == true always reaches close_comm_window', not bad, 'close on every revoke path', f'revoke path skipping close: {bad}')

    # ---- e ---------------------------------------------------------------------
    with R.clause('e'):
        pass
        mutators = {PASE + '::open_basic_comm_window', PASE + '::open_comm_window', PASE + '::close_comm_window'}
        MUT = ('utils::maybe::Maybe::reinit', 'utils::maybe::Maybe::clear', 'utils::maybe::Maybe::as_opt_mut', 'utils::maybe::Maybe::as_mut')
        found = {}
        for b in F.bodies.values():
            if not b.focus or not any(m in b.calls_summary for m in MUT):
                continue
            for t in b.calls(*MUT):
                s = prims.sources(b, t.d['a'][0])
                if any(f == 'comm_window:' + PASE for f in src_fields(s)):
                    found.setdefault(F.owner_fn(b.fn), []).append((b, t))
        R.floor('mutation sites of Pase.comm_window', sum(len(v) for v in found.values()), 3)
        structural = {f for f, v in found.items() if any(t.d['f'] in MUT[:2] for b, t in v)}
        R.confine('P1', 'functions that open/close Pase.comm_window (reinit/clear)', structural, mutators)
        R.confine('P1', 'functions that take &mut CommWindow', set(found), mutators | {PASE + '::record_pake_failure'})
        for f in sorted(structural):
            for b, t in found[f]:
                if t.d['f'] not in MUT[:2]:
                    continue
                # notify_mdns is the FnMut parameter: a call_mut/call_once whose receiver derives from an argument named notify_mdns
                nbbs = []
                for c in b.calls('core::ops::function::FnMut::call_mut', 'core::ops::function::FnOnce::call_once', 'core::ops::function::Fn::call'):
                    p = op_place(c.d['a'][0])
                    srcs = prims.sources(b, c.d['a'][0])
                    if any(x[0] == 'arg' and b.local_name(x[1]) == 'notify_mdns' for x in srcs):
                        nbbs.append(c.bb)
                bad = prims.always_followed_by(b, [t.bb], nbbs) if nbbs else [t.bb]
                R.expect('P3', b.fn, f'window mutation at {b.where(t.bb)} is followed by notify_mdns() on every path', not bad,
                         'mdns is notified', 'a path from the mutation returns without notifying mdns', b.where(t.bb))
        ms = closure_in(R, 'Matter::mdns_services', ['Pase::comm_window'])
        emits = [t.bb for t in ms.calls('sc::pase::CommWindow::mdns_service')]
        R.floor('CommWindow::mdns_service in Matter::mdns_services', len(emits), 1)
        R.cut('P2', ms, 'emit the commissionable mDNS record', emits, 'Pase::comm_window() is Some', lambda: R.call_guard(ms, PASE + '::comm_window'))
        # ... "while a window is open": what decides the emission is the window and nothing else - no other part of the node state
        # (fail-safe, fabrics, ..) and no captured flag flows into a branch that separates the emission from its omission
        def state_seeds(body):
            out = {}
            def scan(dst, pl):
                for x in pl[1:]:
                    if isinstance(x, str) and x.startswith('.') and x.endswith(':MatterState') and x != '.pase:MatterState':
                        out.setdefault(dst, x[1:])
                    if isinstance(x, str) and x.endswith(':^') and len(body.locals[dst]) and body.locals[dst][0] in ('bool', 'u8', 'u16', 'u32', 'u64', 'usize'):
                        out.setdefault(dst, 'captured ' + x[1:-2])
            for i, j, st in body.stmts():
                if len(st[0]) != 1:
                    continue
                if 'pl' in st[1]:
                    scan(st[0][0], st[1]['pl'])
                for a in st[1].get('a', ()):
                    if op_place(a):
                        scan(st[0][0], op_place(a))
            for t in body.calls():
                for a in t.d['a']:
                    if op_place(a) and t.d.get('d'):
                        scan(t.d['d'][0], op_place(a))
            return out
        seeds = state_seeds(ms)
        deciding = []
        if seeds:
            tainted, sw, _, _ = prims.forward_taint(ms, set(seeds))
            for bb in sw:
                succs = ms.succ[bb]
                hit = [bool(set(emits) & prims.reach(ms, (s_,))) for s_ in succs]
                if any(hit) and not all(hit):
                    deciding.append(ms.where(bb))
        R.expect('P9', ms.fn, 'whether the commissionable record is emitted depends on the commissioning window alone', not deciding,
                 f'no branch fed by other node state ({sorted(set(seeds.values())) or "none read"}) separates emission from omission',
                 f'a branch at {deciding} that is fed by {sorted(set(seeds.values()))} decides whether an open window is advertised', deciding[0] if deciding else ms.where(emits[0]))
        reach = prims.reachable_fns(F, ['im::InteractionModel::check_timeouts'], depth=3)
        R.expect('P4', 'im::InteractionModel::check_timeouts', 'periodic timeout sweep evaluates the window expiry',
                 PASE + '::check_comm_window_timeout' in reach, 'check_timeouts -> check_comm_window_timeout', 'check_comm_window_timeout not reachable from check_timeouts')
        cw = R.body(PASE + '::check_comm_window_timeout')
        ex = named_local(cw, 'expired')
        te = set()
        for l in ex:
            te |= prims.bool_local_edges(cw, l)[0]
        bad = prims.always_followed_by(cw, [e[1] for e in te], call_bbs(cw, PASE + '::close_comm_window'))
        R.expect('P3', cw.fn, 'an expired window is closed on every path', bool(te) and not bad, 'expired => close_comm_window', f'expired path skipping close: {bad}')

        # ... and the verdict is taken from the window alone: an establishment in progress (session_timeout) or any other PASE state
        # must not be able to keep an expired window open.  Decision dependence (data or control): no branch of the function is
        # influenced by a Pase field other than comm_window
        pase_fields = {f['n'] for f in F.adt(PASE)['variants'][0]['fields']}
        R.floor('fields of Pase', len(pase_fields), 2)
        infl = []
        for fld in sorted(pase_fields - {'comm_window'}):
            ok_, why_ = prims.field_influences_result(cw, fld + ':' + PASE)
            if ok_:
                infl.append(f'{fld} ({why_})')
        R.expect('P9', cw.fn, 'the expiry verdict depends on the window alone (no other PASE state can keep an expired window open)', not infl,
                 'only comm_window is read into a branch', f'the verdict also depends on {infl}')

    # ---- f ---------------------------------------------------------------------
    with R.clause('f'):
        pass
        R.writers_confined('P1', 'session_timeout:' + PASE,
                           {PR + '::update_session_timeout', PR + '::clear_session_timeout', PASE + '::record_pake_failure',
                            PASE + '::new', PASE + '::init', 'sc::pase::initiator::PaseInitiator::initiate'}, min_sites=2)

        slot_owner_rule(R)

    # ---- g ---------------------------------------------------------------------
    with R.clause('g'):
        pass
        n = 0
        for b in F.bodies.values():
            if not b.focus or not b.fn.startswith('sc::pase'):
                continue
            for c in (SP + '::verify', 'crypto::EcPoint::is_valid_pubkey', SP + '::setup_verifier', SP + '::setup_prover', SP + '::verify_cb'):
                if c in b.calls_summary:
                    result_used(R, 'P8', b, (c,))
                    n += 1
        R.floor('P8 sites', n, 3)


def slot_owner_rule(R):
    """The single PASE establishment slot (Pase.session_timeout) is taken over - and its expiry moved - only by the exchange that owns it:
    while an entry exists, everything that (re)writes the entry or its expiry is cut by `entry.exch_id == exchange.id()`; every other
    exchange is answered Busy and leaves the slot as it found it (else a stream of refused attempts keeps an abandoned slot alive for good).
    Shared by C02-f and C20."""
    F = R.facts
    SET = 'sc::pase::SessionEstTimeout'
    ust = closure_in(R, PR + '::update_session_timeout', ['SessionEstTimeout::new'])
    # every function that writes the expiry of an entry
    exp_writers = sorted({F.owner_fn(b.fn) for b in F.bodies.values() if b.focus and list(b.field_writes('session_est_expiry:' + SET))} |
                         {F.owner_fn(b.fn) for b in F.bodies.values() if b.focus and any(st[1].get('op') == 'agg' and st[1].get('adt') == SET for i, j, st in b.stmts())})
    R.floor('functions writing SessionEstTimeout.session_est_expiry', len(exp_writers), 1)
    R.confine('P1', 'functions that set the expiry of the establishment slot', set(exp_writers), {w for w in exp_writers if w.startswith(SET + '::')})
    touch = [t for t in ust.calls() if any(n in exp_writers for n in t.callee_names())]
    touch_bbs = sorted({t.bb for t in touch} | {i for i, j, st in ust.field_writes('session_est_expiry:' + SET)})
    R.floor('(re)arming sites of the establishment slot in update_session_timeout', len(touch_bbs), 2)
    getm = [t for t in ust.calls('core::option::Option::as_mut', 'core::option::Option::as_ref') if any(f == 'session_timeout:' + PASE for f in src_fields(prims.sources(ust, t.d['a'][0])))]
    R.floor('session_timeout.as_mut() in update_session_timeout', len(getm), 1)
    own = set()
    for (bb, neg, sa_, sb_, te, fe) in equality_tests(F, ust):
        if any(f.startswith('exch_id:') for f in src_fields(sa_ | sb_)) and 'transport::exchange::Exchange::id' in src_calls(sa_ | sb_):
            own |= te
    for t in getm:
        some = prims.track_result(F, ust, t).success
        for (frm, to) in sorted(some):
            R.cut_from('P2', ust, to, 'take over the occupied establishment slot / move its expiry', touch_bbs, 'the occupying entry belongs to this very exchange (exch_id == exchange.id())', own)
    # callers of the expiry writers outside update_session_timeout: only where a fresh entry is installed (PaseInitiator::initiate, tests excluded)
    outside = set()
    for w in exp_writers:
        for c in F.callers_of(w):
            o = F.owner_fn(c)
            if not o.startswith(PR + '::update_session_timeout') and '::tests::' not in o and not o.startswith(SET + '::'):
                outside.add(o)
    R.confine('P1', 'callers (outside update_session_timeout) of the functions that arm the establishment slot', outside, {'sc::pase::initiator::PaseInitiator::initiate'})
