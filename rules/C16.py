"""C16 - The TLV codec rejects every malformed input safely (safety half; round trip not decided)."""
import json
import os

from common import (mentions, closure_in, ok_return_bbs, call_bbs, named_local, src_calls, src_fields, src_consts, bodies_of, result_used)
from facts import AnchorLost, op_place
import prims
import p7

EXPLANATION = """
Static rules over the TLV reader (tlv/read.rs, tlv/traits*, the control-byte parser in tlv.rs); decode(encode(v)) = v is not decided.
(a) panic surface: every panic-capable MIR site - Assert terminators (arithmetic overflow, bounds check, division by zero) and calls to
panicking APIs (core::panicking::*, Option/Result::unwrap/expect, slice indexing / copy_from_slice / split_at) - in every body of the
reader is discharged by one of: operands constant; a dominating comparison of the same two operand expressions whose failing edge leaves;
a width bound (operands provably narrower than the result type: casts from u8/u16, slice lengths, constant-returning size functions); an
unreachable default arm whose scrutinee comes from a function returning only listed constants; or an entry of the audited table
(rules/p7_audited.json, keyed by function + site kind + operand expressions, never by line) stating the invariant. Anything else is a
violation naming the site - on the pinned tree: the unchecked additions on peer-controlled lengths in TLVSequence::len / container_len /
container_value_len (fixed by 51c799c) and the nesting underflow of TLVSequenceTLVIter (fixed by 2fc1ebd);
(b) every loop makes progress: each CFG cycle in the reader contains a call that strictly shortens the remaining input
(next_enter / next_start / Iterator::next / get(n..));
(c) reported lengths lie within the input: raw_value / container_value / value / next_start return only checked `get(..)` sub-slices;
(d) writer half, structural part only: in TLVWrite::{i16,i32,i64,u16,u32,u64} the cast of `data` to the narrower type is cut by `data <= narrow::MAX`
and (signed) `data >= narrow::MIN` comparisons on `data` itself, and each method's full-width arm writes the TLVValueType of its own width.
"""
CLAUSES = ['a: reader panic surface discharged', 'b: loops advance through the input', 'c: returned slices are bounds-checked sub-slices of the input', 'd: writer narrows integers only inside the narrow range; value-type table; re-encoding keeps the source width; the iterator encoder walks nested containers completely']
NOT_DECIDED = ['decode(encode(v)) == v and re-encoding stability', 'u64 -> usize truncation of lengths on 32-bit targets (noted, not alarmed)']
MIN_OBLIGATIONS = {'q': 25, 'd': 25, 'r': 25}
HERE = os.path.dirname(os.path.abspath(__file__))


def surface(F, prop):
    sets = json.load(open(os.path.join(HERE, 'p7_sets.json')))
    prefs, excl = sets[prop][0], sets[prop][1]
    contains = sets[prop][2] if len(sets[prop]) > 2 else []
    out = []
    for b in F.bodies.values():
        if not b.focus or any(e in b.fn for e in excl):
            continue
        if b.fn.lstrip('<').startswith(tuple(prefs)) or any(c in b.fn for c in contains):
            out.append(b)
    return out


def check(R):
    F = R.facts
    # ---- a --------------------------------------------------------------------
    with R.clause('a'):
        bodies = surface(F, 'C16')
        R.floor('reader bodies', len(bodies), 150)
        total, nb, used = p7.analyse(R, 'P7', bodies, p7.load_audited(), 'C16')
        R.floor('panic-capable sites examined', total, 40)
        R.note(f'{total} panic-capable sites in {nb} of {len(bodies)} reader bodies; {len(used)} discharged by audited invariants')
        # TLVContainer::iter unwraps element.container(): every way to obtain a TLVContainer must have validated the element kind
        R.callers_confined('P1', 'tlv::traits::container::TLVContainer::new_unchecked',
                           {'tlv::traits::container::TLVContainer::new', '<tlv::traits::container::TLVContainer<T, C> as tlv::traits::FromTLV>::from_tlv'}, min_callers=2)
        ft = R.body('<tlv::traits::container::TLVContainer<T, C> as tlv::traits::FromTLV>::from_tlv')
        R.cut('P2', ft, 'wrap the element as a container (new_unchecked)', call_bbs(ft, 'tlv::traits::container::TLVContainer::new_unchecked'), 'the element is empty or a container (element.container() ok)',
              lambda: R.call_guard(ft, 'tlv::read::TLVElement::container') | R.call_guard(ft, 'tlv::read::TLVElement::is_empty'))
        # ... and the constructors accept an EMPTY element (an absent field): iter() must not unwrap container() for it
        it = R.body('tlv::traits::container::TLVContainer::iter')
        R.cut('P2', it, 'unwrap element.container()', call_bbs(it, 'tlv::read::TLVElement::container'), 'the element is not empty (is_empty() == false)',
              lambda: _fail_edges(R, it, 'tlv::read::TLVElement::is_empty'))
        # the three length sums use checked arithmetic
        for fn in ('tlv::read::TLVSequence::len', 'tlv::read::TLVSequence::container_len', 'tlv::read::TLVSequence::container_value_len'):
            b = R.body(fn)
            R.expect('P7', fn, 'the peer-controlled value length is added with checked arithmetic', any(c.endswith('::checked_add') for c in b.calls_summary), 'checked_add',
                     'no checked_add: the sum of header size and a 64-bit length field can overflow')

    # ---- b --------------------------------------------------------------------
    with R.clause('b'):
        ADV = ('::next_enter', '::next_start', 'Iterator::next', '::container_next', '::get', '::advance', '::try_next', '::next', '::push', '::push_init', '::push_str', '::extend_from_slice')
        nloops = 0
        for b in surface(F, 'C16'):
            # back edges: an edge to a block that can reach its source
            heads = set()
            for i in range(len(b.bbs)):
                if b.is_cleanup(i):
                    continue
                for s in b.succ[i]:
                    if s <= i and i in prims.reach(b, (s,)):
                        heads.add(s)
            for h in sorted(heads):
                nloops += 1
                cyc = {x for x in prims.reach(b, (h,)) if h in prims.reach(b, b.succ[x])} | {h}
                adv = [x for x in cyc if b.bbs[x]['t']['t'] == 'call' and b.bbs[x]['t'].get('f', '').endswith(ADV)]
                counters = [x for x in cyc if any(s[1].get('op') == 'bin' and s[1].get('b') in ('AddWithOverflow', 'SubWithOverflow', 'Add', 'Sub') for s in b.bbs[x]['s'])]
                # every path around the loop passes an advancing call (or a strictly moving counter)
                stuck = h in prims.reach(b, b.succ[h], cut_blocks=set(adv) | set(counters)) if (adv or counters) else True
                R.expect('P3', b.fn, f'loop at {b.where(h)} consumes input on every iteration', not stuck, f'{len(adv)} advancing call(s) on the cycle',
                         'a cycle exists that neither advances through the input nor moves a counter: hostile input could loop forever', b.where(h))
        R.floor('loops in the reader', nloops, 3)

    # ---- c --------------------------------------------------------------------
    with R.clause('c'):
        for fn in ('tlv::read::TLVSequence::container_value', 'tlv::read::TLVSequence::value', 'tlv::read::TLVSequence::next_start', 'tlv::read::TLVSequence::value_start',
                   'tlv::read::TLVSequence::value_len_start'):
            b = R.body(fn)
            rd = prims.result_defs(b)
            oks = [(bb, p) for bb, k, p in rd if k == 'agg' and p.get('var') == 'Ok']
            R.floor(f'Ok results of {fn}', len(oks), 1)
            for bb, p in oks:
                s = prims.sources(b, p['a'][0])
                gets = [c for c in src_calls(s) if c.endswith('::get')]
                idx = [c for c in src_calls(s) if c.endswith('Index::index') or c.endswith('::split_at') or c.endswith('get_unchecked')]
                R.expect('P2', fn, 'the returned slice is a checked get(..) sub-slice of the input', bool(gets) and not idx, f'{gets}', f'returned slice derives from {sorted(src_calls(s))[:5]}', b.where(bb))
        rv = R.body('tlv::read::TLVSequence::raw_value')
        R.expect('P4', rv.fn, 'raw_value goes through container_value', 'tlv::read::TLVSequence::container_value' in rv.calls_summary, 'ok', 'changed')

    # ---- d --------------------------------------------------------------------
    with R.clause('d'):
        # the ordered (linear) decoder of derived structures: TLVSequence::scan_map steps over an element only when the closure did NOT
        # settle on it - `scan_ctx` answers Some(empty) for "the wanted tag is absent, stay on this element", and stepping past that element
        # loses a present field behind an absent optional one
        sm = R.body('tlv::read::TLVSequence::scan_map')
        fcalls = [t for t in sm.calls() if any(n.endswith(('FnMut::call_mut', 'FnOnce::call_once', 'Fn::call')) for n in t.callee_names())]
        R.floor('closure invocation in TLVSequence::scan_map', len(fcalls), 1)
        adv = sorted({i for i, j, st in sm.stmts() if st[0][0] == 1 and len(st[0]) > 1 and not sm.is_cleanup(i)} | {t.bb for t in sm.calls('tlv::read::TLVSequence::container_next')})
        R.floor('advance (container_next / write of *self) in TLVSequence::scan_map', len(adv), 1)
        for t in fcalls:
            tr0, tr1 = prims.track_result(F, sm, t), prims.track_result(F, sm, t, inner=1)
            for (frm, to) in sorted(tr0.success):
                R.cut_from('P2', sm, to, 'step over the current element', adv, 'the closure did not settle on it (its answer was None)', tr1.failure)
        # writer side of the round trip: the minimal-width selection narrows a value only inside the narrow type's range, and the
        # full-width arm tags the bytes with the value type of its own width
        RANGE = {'i8': (-128, 127), 'i16': (-32768, 32767), 'i32': (-2 ** 31, 2 ** 31 - 1), 'u8': (0, 255), 'u16': (0, 65535), 'u32': (0, 2 ** 32 - 1)}
        NARROW = {'i16': 'i8', 'i32': 'i16', 'i64': 'i32', 'u16': 'u8', 'u32': 'u16', 'u64': 'u32'}
        VT = {'i8': 'S8', 'i16': 'S16', 'i32': 'S32', 'i64': 'S64', 'u8': 'U8', 'u16': 'U16', 'u32': 'U32', 'u64': 'U64'}
        for m, nar in sorted(NARROW.items()):
            b = R.body('tlv::write::TLVWrite::' + m)
            lo, hi = RANGE[nar]
            casts = sorted({i for i, j, st in b.stmts() if st[1].get('op') == 'cast' and len(st[0]) == 1 and b.local_ty(st[0][0]) == nar
                            and p7.expr_key(b, st[1]['a'][0]) == 'data'})
            R.floor(f'narrowing cast in TLVWrite::{m}', len(casts), 1)
            ge, le = set(), set()
            for (bb, j, op, x, y, dest) in prims.compare_sites(b):
                kx, ky = p7.expr_key(b, x), p7.expr_key(b, y)
                if ky == 'data' and kx != 'data':
                    kx, ky, op = ky, kx, {'Lt': 'Gt', 'Gt': 'Lt', 'Le': 'Ge', 'Ge': 'Le'}.get(op, op)
                c = p7._eval_key(ky)
                if kx != 'data' or c is None:
                    continue
                te, fe = prims.bool_local_edges(b, dest)
                if (op == 'Ge' and c >= lo) or (op == 'Gt' and c >= lo - 1):
                    ge |= te
                if (op == 'Lt' and c >= lo) or (op == 'Le' and c >= lo - 1):
                    ge |= fe
                if (op == 'Le' and c <= hi) or (op == 'Lt' and c <= hi + 1):
                    le |= te
                if (op == 'Gt' and c <= hi) or (op == 'Ge' and c <= hi + 1):
                    le |= fe
            R.cut('P2', b, f'narrow the value to {nar}', casts, f'data <= {nar}::MAX', le)
            if lo < 0:
                R.cut('P2', b, f'narrow the value to {nar}', casts, f'data >= {nar}::MIN', ge)
        # re-encoding a decoded element reproduces its bytes: TLVElement::to_tlv copies the value under the SOURCE's value type (which
        # fixes the length-field width) through raw_value - the width-choosing writers (str / utf8 / integers: shortest form) are not used
        te = R.body('<tlv::read::TLVElement as tlv::traits::ToTLV>::to_tlv')
        rawv = te.calls('tlv::write::TLVWrite::raw_value')
        R.floor('TLVWrite::raw_value in TLVElement::to_tlv', len(rawv), 1)
        for t in rawv:
            vs_ = prims.sources(te, t.d['a'][2])
            R.expect('P10', te.fn, 'the value type written is the decoded element\'s own (TLVElement::control)', 'tlv::read::TLVElement::control' in src_calls(vs_) and not [c for c in src_consts(vs_) if c is not None],
                     'raw_value(tag, control.value_type, ..)', f'value type derives from {sorted(src_calls(vs_))[:4]} / constants {[c for c in src_consts(vs_) if c is not None][:3]}', te.where(t.bb))
        chooser = sorted(c for c in te.calls_summary if c.startswith('tlv::write::TLVWrite::') and c.split('::')[-1] not in ('raw_value', 'write_raw_data', 'write', 'start_container', 'end_container'))
        R.expect('P5', te.fn, 'no width-choosing writer is used to re-encode a decoded element', not chooser, 'raw_value / write_raw_data only',
                 f'{chooser} picks the shortest length / integer form: an element decoded from a non-minimal encoding is re-encoded to different bytes')
        R.expect('P10', te.fn, 'the length prefix is re-emitted with the source element\'s size class', 'tlv::TLVValueType::variable_size_len' in te.calls_summary, 'variable_size_len()', 'size class not consulted')
        # the iterator-based encoder walks NESTED containers completely: in TLVSequenceTLVIter::try_next an end-of-container marker ends
        # the iteration only at nesting 0 (the marker of the enclosing container); an inner one is emitted and the walk goes on, with the
        # nesting counter going up on every container start and down on every inner end
        tn = R.body('tlv::read::TLVSequenceTLVIter::try_next')
        NEST = 'nesting:tlv::read::TLVSequenceTLVIter'
        nones = [bb for bb, k, pl_ in prims.result_defs(tn) if k == 'agg' and pl_.get('var') == 'Ok' and any(x[0] == 'agg' and x[2] == 'None' for x in prims.sources(tn, pl_['a'][0]))]
        R.floor('Ok(None) results of TLVSequenceTLVIter::try_next', len(nones), 1)
        ends = tn.calls('tlv::TLVControl::is_container_end')
        if not ends:
            R.fail('P2', tn.fn, 'stop at an end-of-container marker cut-by nesting == 0', 'try_next does not test for the end-of-container marker itself (it relies on current(), which answers EMPTY for EVERY end marker): '
                   'the walk stops at the first inner end marker and everything after the first nested container is dropped', f'{tn.file}:{tn.line}')
        else:
            at_zero = set()
            for bb, te_, fe_ in prims.cmp_guard_edges(tn, 'Eq', lambda s_: any(f == NEST for f in src_fields(s_)), lambda s_: 0 in src_consts(s_)):
                at_zero |= te_
            for bb, te_, fe_ in prims.cmp_guard_edges(tn, 'Gt', lambda s_: any(f == NEST for f in src_fields(s_)), lambda s_: 0 in src_consts(s_), symmetric=False):
                at_zero |= fe_
            for t in ends:
                for (frm, to) in sorted(prims.track_result(F, tn, t).success):
                    R.cut_from('P2', tn, to, 'stop at an end-of-container marker (Ok(None))', nones, 'it is the marker of the enclosing container (nesting == 0)', at_zero)
            ups = [i for i, j, st in tn.stmts() if st[1].get('op') == 'bin' and st[1].get('b') in ('Add', 'AddWithOverflow') and any(f == NEST for f in src_fields(prims.sources(tn, st[1]['a'][0])))]
            downs = [i for i, j, st in tn.stmts() if st[1].get('op') == 'bin' and st[1].get('b') in ('Sub', 'SubWithOverflow') and any(f == NEST for f in src_fields(prims.sources(tn, st[1]['a'][0])))]
            R.floor('nesting += 1 in try_next', len(ups), 1)
            R.floor('nesting -= 1 in try_next', len(downs), 1)
            R.cut('P2', tn, 'enter a container (nesting += 1)', ups, 'the element is a container start', lambda: R.call_guard(tn, 'tlv::TLVControl::is_container_start'))
            R.cut('P2', tn, 'leave a container (nesting -= 1)', downs, 'the element is an end-of-container marker', lambda: R.call_guard(tn, 'tlv::TLVControl::is_container_end'))
        for m, vt in sorted(VT.items()):
            b = R.body('tlv::write::TLVWrite::' + m)
            vts = sorted({st[1].get('var') for i, j, st in b.stmts() if st[1].get('op') == 'agg' and st[1].get('adt') == 'tlv::TLVValueType'})
            R.expect('P5', b.fn, f'the full-width arm of TLVWrite::{m} writes value type {vt}', vts == [vt], f'{vts}', f'writes {vts}', f'{b.file}:{b.line}')


def _fail_edges(R, body, callee):
    e = set()
    ts = body.calls(callee)
    if not ts:
        from facts import GuardMissing
        raise GuardMissing(f'{body.fn}: no call of {callee}')
    for t in ts:
        e |= prims.track_result(R.facts, body, t).failure
    return e

