"""C15 - A nonce is never used for two different messages (structural clauses)."""
from common import (mentions, closure_in, async_body, closure_arg_sites, ok_return_bbs, call_bbs, named_local, src_calls, variant_bbs,
                    src_fields, src_consts, bodies_of, result_used)
from facts import AnchorLost, op_place
import prims

EXPLANATION = """
Static structural rules over transport/{session,mrp,exchange}.rs and every message builder handed to Exchange::send_with:
(a) counter discipline: Session.msg_ctr is written only in new/init/get_msg_ctr, get_msg_ctr is called only from
Session::pre_send and only on the edge where no retransmission entry exists; it hands out the old value and adds exactly one;
on the retransmission edge the header counter derives from RetransEntry::get_msg_ctr; RetransEntry.msg_ctr is assigned at
construction only, from the header counter of the first transmission;
(b) the counter in the nonce is the counter in the header (decided under C03-c);
(c) builders that may run again must be idempotent: send_with may call its closure again for every retransmission, so inside
every closure passed to Exchange::send_with (all call sites outside generated code), any call that reaches - within three
call levels - a non-idempotent primitive (Crypto::rand / weak_rand, SigningSecretKey::sign, generate_secret_key,
generate_ec_scalar, Sessions::get_next_sess_id / get_next_exch_id, CaseP::update_tt, Spake2P::finish_context, Instant::now)
must sit behind a once-guard on captured state: a captured bool tested false before and set true after, or a captured
Option consumed with take();
(d) session ids: get_next_sess_id leaves its loop only when no live session has the candidate as local session id, and
never yields 0; (e) exchange ids: get_next_exch_id's uniqueness test must cover exchanges in the Initiator role - the ids it
hands out name initiator exchanges (violated on the pinned tree: fixed by 5ca924b);
(f) pre_send reuses the counter of an exchange's pending retransmission for whatever is sent with that exchange index, so every
TransportRunner::write_packet call passes exch_index = None, except the dropped-exchange clean-up ACK, which is cut by
close_session == false (no retransmission pending); (g) in ReliableMessage::post_recv no MRP state is written on a path that ends
in Err(Duplicate): a dropped stale-ACK message cannot change the acknowledgement a pending retransmission piggy-backs.
"""
CLAUSES = ['a: message counter reused only for retransmissions, incremented by one and stored unreduced', 'c: retransmittable builders are idempotent (once-guards; a builder that advances the transcript does not read it)', 'd: session ids unique among live sessions',
           'e: exchange ids unique among live exchanges', 'f: transport-generated packets never borrow an exchange\'s retransmission counter', 'g: dropped duplicates leave the piggy-backed ACK unchanged',
           'h: a message header is built from a reset header, never on top of the previous user of the shared TX packet']
NOT_DECIDED = ['bit-for-bit identity of retransmissions at run time', 'monotonicity under every schedule', 'piggy-backed acknowledgement stability against a peer that omits the ACK flag on a new message']
MIN_OBLIGATIONS = {'q': 20, 'd': 20, 'r': 16}

SESS = 'transport::session::Session'
SESSIONS = 'transport::session::Sessions'
RE = 'transport::mrp::RetransEntry'
NONIDEM = ('crypto::Crypto::rand', 'crypto::Crypto::weak_rand', 'crypto::SigningSecretKey::sign', 'crypto::Crypto::generate_secret_key', 'crypto::Crypto::generate_ec_scalar',
           SESSIONS + '::get_next_sess_id', SESSIONS + '::get_next_exch_id', 'sc::case::casep::CaseP::update_tt', 'sc::pase::spake2p::Spake2P::finish_context',
           'embassy_time::instant::Instant::now')


def _once_guard(F, clo, cb, ct):
    """is the call ct (in body cb of the builder tree rooted at closure clo) behind a once-guard - a captured flag that is tested before
    and set after it, or an Option::take on a captured option - in cb or in an enclosing closure of the tree?  -> (ok, detail)"""
    ok = False
    detail = ''
    chain = [cb]
    cur = cb
    while cur.fn != clo:
        parent = F.bodies.get(cur.fn.rsplit('::{closure#', 1)[0])
        if parent is None:
            break
        chain.append(parent)
        cur = parent
    site_bb = {cb.fn: ct.bb}
    for up in chain[1:]:
        # the block in `up` that builds / passes the inner closure
        inner = chain[chain.index(up) - 1]
        bbs = [i for i, j, s, c in up.closures_built() if c == inner.fn]
        site_bb[up.fn] = bbs[0] if bbs else None
    for body_ in chain:
        sb = site_bb.get(body_.fn)
        if sb is None:
            continue
        for name, (edges, sets) in _upvar_guards(body_).items():
            if not edges:
                continue
            if sb in prims.reach(body_, (0,), cut_edges=edges):
                continue
            if name.endswith('.take()') or (sets and not prims.always_followed_by(body_, [sb], sets, exits=ok_return_bbs(body_) or None)):
                ok = True
                detail = f'once-guard `{name}` in {body_.fn.split("::")[-1]}'
    return ok, detail


def _upvar_guards(body):
    """candidate once-guards in a closure body: {name: (not_done_edges, set_blocks)}"""
    out = {}
    # bool upvars: switches on a local copied from a place through the closure env ending in an upvar field
    for i, j, s in body.stmts():
        pl, rv = s[0], s[1]
        if rv.get('op') == 'use' and len(pl) == 1 and body.local_ty(pl[0]) == 'bool':
            src = op_place(rv['a'][0])
            if src and src[0] == 1:
                ups = [x for x in src[1:] if isinstance(x, str) and x.endswith(':^')]
                if ups:
                    name = ups[-1][1:-2]
                    te, fe = prims.bool_local_edges(body, pl[0])
                    g = out.setdefault(name, [set(), set()])
                    g[0] |= fe
    for i, blk in enumerate(body.bbs):
        t = blk['t']
        if t['t'] == 'switch' and not blk.get('c'):
            p = op_place(t['on'])
            if p and p[0] == 1 and len(p) > 1:
                ups = [x for x in p[1:] if isinstance(x, str) and x.endswith(':^')]
                if ups and p[-1] in ('*',) or (ups and p[-1] == ups[-1]):
                    name = ups[-1][1:-2]
                    g = out.setdefault(name, [set(), set()])
                    for v, b in t['tg']:
                        if v == 0:
                            g[0].add((i, b))
    # writes of `true` into the upvar
    for i, j, s in body.stmts():
        pl, rv = s[0], s[1]
        if pl[0] == 1 and len(pl) > 1 and rv.get('op') == 'use' and rv['a'][0].get('k', {}).get('v') == 1:
            ups = [x for x in pl[1:] if isinstance(x, str) and x.endswith(':^')]
            if ups:
                out.setdefault(ups[-1][1:-2], [set(), set()])[1].add(i)
    # Option::take on an upvar
    for t in body.calls('core::option::Option::take'):
        s = prims.sources(body, t.d['a'][0])
        ups = [x[1] for x in s if x[0] == 'upvar']
        if ups:
            tr = prims.track_result(None, body, t)
            g = out.setdefault(ups[0] + '.take()', [set(), set()])
            g[0] |= tr.success
            g[1].add(t.bb)
    return out


def check(R):
    F = R.facts
    # ---- a --------------------------------------------------------------------
    with R.clause('a'):
        R.writers_confined('P1', 'msg_ctr:' + SESS, {SESS + '::new', SESS + '::init', SESS + '::get_msg_ctr'})
        R.callers_confined('P1', SESS + '::get_msg_ctr', {SESS + '::pre_send'})
        gm = R.body(SESS + '::get_msg_ctr')
        adds = [s for i, j, s in gm.stmts() if s[1].get('op') == 'bin' and s[1].get('b') in ('Add', 'AddWithOverflow')]
        R.expect('P6', gm.fn, 'the counter advances by exactly one per fresh message', len(adds) == 1 and adds[0][1]['a'][1].get('k', {}).get('v') == 1 and mentions(prims.sources(gm, adds[0][1]['a'][0]), 'msg_ctr'),
                 'msg_ctr += 1', f'{len(adds)} additions')
        # ... and the sum is stored as it is: nothing masks, reduces or re-bases it (a counter that wraps inside its seeding range - 28 bits -
        # repeats values, i.e. nonces, within the life of the session; the 32-bit overflow is the session's end, not an event to survive)
        other = sorted({s[1].get('b') for i, j, s in gm.stmts() if s[1].get('op') == 'bin' and s[1].get('b') not in ('Add', 'AddWithOverflow')} |
                       {t.callee_names()[0].split('::')[-1] for t in gm.calls() if not any(n.endswith(('::checked_add', '::expect', '::unwrap')) for n in t.callee_names())})
        R.expect('P10', gm.fn, 'the incremented counter is stored unreduced (no mask / modulo / other arithmetic on it)', not other,
                 'self.msg_ctr <- self.msg_ctr + 1', f'further operations on the counter: {other}')
        rd = prims.result_defs(gm)
        w = [i for i, j, s in gm.field_writes('msg_ctr:' + SESS)]
        R.expect('P10', gm.fn, 'the value handed out is the counter before the increment', all(k == 'expr' and mentions(prims.sources(gm, p['a'][0]), 'msg_ctr') for bb, k, p in rd if k != 'const') and bool(rd) and bool(w),
                 'let ctr = self.msg_ctr; self.msg_ctr += 1; ctr', f'{[(k) for bb, k, p in rd]}')
        ps = R.body(SESS + '::pre_send')
        ctr = named_local(ps, 'ctr')
        opt_ctr = [l for l in ctr if ps.local_ty(l).startswith('core::option::Option')]
        none_edges, _ = prims.enum_local_edges(F, ps, lambda pl: pl[0] in opt_ctr and len(pl) == 1, 'core::option::Option', ['None'])
        R.cut('P2', ps, 'draw a fresh message counter', call_bbs(ps, SESS + '::get_msg_ctr'), 'no retransmission entry is pending (ctr == None)', none_edges)
        s = set()
        for l in opt_ctr:
            s |= prims.sources(ps, l)
        R.expect('P10', ps.fn, 'a retransmission re-uses the counter kept in the retransmission entry', ('fn', RE + '::get_msg_ctr') in s or RE + '::get_msg_ctr' in src_calls(s) or mentions(s, 'retrans'),
                 'exchange.mrp.retrans.map(RetransEntry::get_msg_ctr)', f'{sorted(map(str, s))[:6]}')
        hw = [(i, j, st) for i, j, st in ps.field_writes('ctr:transport::plain_hdr::PlainHdr')]
        R.floor('header counter writes in pre_send', len(hw), 1)
        for i, j, st in hw:
            ss = set()
            for a in st[1].get('a', ()):
                ss |= prims.sources(ps, a)
            okc = (SESS + '::get_msg_ctr' in src_calls(ss)) or any(l in set(ctr) for l in _locals(ps, st[1]['a'][0])) or mentions(ss, 'group_data_ctr') or any(x[0] == 'field' and 'Some' in x[1] for x in ss)
            R.expect('P10', ps.fn, 'the header counter is a fresh counter, the retransmission entry\'s, or the reserved group counter', okc and SESS + '::get_msg_ctr' in src_calls(ss),
                     'ok', f'{sorted(map(str, ss))[:6]}', ps.where(i, j))
        R.constructors_confined('P1', RE, {RE + '::new'})
        R.expect('P1', RE, 'RetransEntry.msg_ctr is never reassigned', not F.writers.get('msg_ctr:' + RE), 'no field write', f'{sorted(F.writers.get("msg_ctr:" + RE, []))}')
        rp = R.body('transport::mrp::ReliableMessage::pre_send')
        nw = rp.calls(RE + '::new')
        R.floor('RetransEntry::new in ReliableMessage::pre_send', len(nw), 1)
        s = prims.sources(rp, nw[0].d['a'][1])
        R.expect('P10', rp.fn, 'the retransmission entry remembers the header counter of the first transmission', mentions(s, 'ctr') and ('arg', 2) in s, 'RetransEntry::new(.., tx_plain.ctr)', f'{sorted(map(str, s))[:4]}')

    # ---- c --------------------------------------------------------------------
    with R.clause('c'):
        sites = 0
        guarded = 0
        builders = []
        for b in sorted(F.bodies.values(), key=lambda x: x.fn):
            if not b.focus or 'dm::clusters::decl' in b.fn or 'transport::exchange::Exchange::send_with' not in b.calls_summary:
                continue
            for t in b.calls('transport::exchange::Exchange::send_with'):
                sites += 1
                clo = None
                for a in t.d['a']:
                    for x in prims.sources(b, a):
                        if x[0] == 'closure':
                            clo = x[1]
                if clo is None:
                    R.note(f'{b.fn}: send_with at {b.where(t.bb)} is given a builder that is not a local closure (forwarded parameter)')
                    continue
                tree = [F.bodies[clo]] + [x for x in F.bodies.values() if x.fn.startswith(clo + '::{closure#')]
                builders.append((b, t, clo, tree))
                for cb in tree:
                    if not cb.focus:
                        continue
                    for ct in cb.calls():
                        names = ct.callee_names()
                        hit = None
                        for n in names:
                            if n in NONIDEM:
                                hit = n
                            else:
                                r = prims.reachable_fns(F, [n], depth=3, through_traits=False)
                                for q in r:
                                    if q in NONIDEM:
                                        hit = q
                            if hit:
                                break
                        if not hit:
                            continue
                        if any(n.startswith(clo + '::{closure#') for n in names):
                            continue   # the nested closure is analysed itself
                        ok, detail = _once_guard(F, clo, cb, ct)
                        guarded += 1 if ok else 0
                        R.expect('P2', cb.fn, f'non-idempotent {hit.split("::")[-1]} (via {names[0].split("::")[-1]}) in a retransmittable builder runs at most once', ok, detail,
                                 f'{names[0]} at {cb.where(ct.bb)} reaches {hit}; the builder closure may be called again for a retransmission, so the re-sent message (same counter, same nonce) would differ',
                                 cb.where(ct.bb))
        R.floor('send_with call sites analysed', sites, 20)
        R.floor('guarded non-idempotent calls in builders', guarded, 4)

        # a builder may run again for a retransmission: what it read the first time must still read the same.  The one piece of state a
        # builder itself advances (behind its once-guard) is the handshake transcript - so a builder that calls update_tt must not, outside
        # that guard, derive anything from the running transcript (current_tt_hash): the second build would see its own first message in it
        TT_W, TT_R = 'sc::case::casep::CaseP::update_tt', 'sc::case::casep::CaseP::current_tt_hash'
        advancing = 0
        for (b, t, clo, tree) in builders:
            def reaches(ct, target):
                for n in ct.callee_names():
                    if n == target or target in prims.reachable_fns(F, [n], depth=3, through_traits=False):
                        return n
                return None
            w = [(cb, ct) for cb in tree if cb.focus for ct in cb.calls() if reaches(ct, TT_W) and not any(n.startswith(clo + '::{closure#') for n in ct.callee_names())]
            if not w:
                continue
            advancing += 1
            rd = [(cb, ct, reaches(ct, TT_R)) for cb in tree if cb.focus for ct in cb.calls()
                  if reaches(ct, TT_R) and not reaches(ct, TT_W) and not any(n.startswith(clo + '::{closure#') for n in ct.callee_names())]
            if not rd:
                R.ok('P2', clo, 'a builder that advances the handshake transcript derives nothing from the running transcript', 'no current_tt_hash reachable from the builder', b.where(t.bb))
            for cb, ct, via in rd:
                ok, detail = _once_guard(F, clo, cb, ct)
                R.expect('P2', cb.fn, 'a builder that advances the handshake transcript derives nothing from the running transcript outside its once-guard', ok, detail,
                         f'{via} at {cb.where(ct.bb)} reads the running transcript (current_tt_hash) and the same builder hashes its own message into it (update_tt): when the builder '
                         'runs again for a retransmission the value differs, so the re-sent message is not the one that was lost', cb.where(ct.bb))
        R.floor('builders that advance the transcript', advancing, 1)

    # ---- d --------------------------------------------------------------------
    with R.clause('d'):
        ns = R.body(SESSIONS + '::get_next_sess_id')
        alls = [t for t in ns.calls() if t.d.get('f', '').endswith('Iterator::all')]
        R.floor('all(..) in get_next_sess_id', len(alls), 1)
        rets = ns.ret_blocks()
        R.cut('P2', ns, 'leave the loop with the candidate id', rets, 'no live session uses the candidate', lambda: prims.track_result(F, ns, alls[0]).success)
        pc = [b for b in F.nested(ns.fn)]
        okp = any(any(SESS + '::get_local_sess_id' in src_calls(prims.sources(b, c[3]) | prims.sources(b, c[4])) and c[2] == 'Ne' for c in prims.compare_sites(b)) for b in pc)
        R.expect('P9', ns.fn, 'the uniqueness predicate compares every session\'s local session id', okp, 'sess.get_local_sess_id() != candidate', 'predicate changed')
        s = prims.sources(ns, alls[0].d['a'][0], through={'core::slice::<impl [T]>::iter'})
        R.expect('P9', ns.fn, 'the scan covers the whole session table', mentions(s, 'sessions'), 'self.sessions.iter()', f'{sorted(map(str, s))[:4]}')
        zero = [c for c in prims.compare_sites(ns, ops=('Eq',)) if 0 in src_consts(prims.sources(ns, c[3]) | prims.sources(ns, c[4])) and mentions(prims.sources(ns, c[3]) | prims.sources(ns, c[4]), 'next_sess_id')]
        R.expect('P6', ns.fn, 'session id 0 is skipped', len(zero) >= 1, 'if next == 0 { next = 1 }', 'no zero test')

    # ---- e --------------------------------------------------------------------
    with R.clause('e'):
        ne = R.body(SESSIONS + '::get_next_exch_id')
        alls = [t for t in ne.calls() if t.d.get('f', '').endswith('Iterator::all')]
        R.floor('all(..) in get_next_exch_id', len(alls), 1)
        oks = ok_return_bbs(ne)
        R.cut('P2', ne, 'return the candidate id', oks, 'no live exchange uses the candidate', lambda: prims.track_result(F, ne, alls[0]).success)
        pred = [b for b in F.nested(ne.fn) if any(mentions(prims.sources(b, c[3]) | prims.sources(b, c[4]), 'exch_id') for c in prims.compare_sites(b))]
        R.floor('uniqueness predicate of get_next_exch_id', len(pred), 1)
        pb = pred[0]
        # is the id comparison reachable for an exchange in the Initiator role?
        cmp_bbs = [c[0] for c in prims.compare_sites(pb) if mentions(prims.sources(pb, c[3]) | prims.sources(pb, c[4]), 'exch_id')]
        role_sw = []
        init_d = F.variant_discr('transport::exchange::Role', 'Initiator')
        cut = set()
        for i, blk in enumerate(pb.bbs):
            t = blk['t']
            if t['t'] == 'switch' and not blk.get('c'):
                p = op_place(t['on'])
                if p and len(p) == 1:
                    for (dbb, di, kind, payload) in pb.defs.get(p[0], ()):
                        if kind == 'assign' and payload[1].get('op') == 'discr' and payload[1].get('adt') == 'transport::exchange::Role':
                            role_sw.append(i)
                            # edges an Initiator-role exchange cannot take
                            listed = {v for v, b in t['tg']}
                            for v, b in t['tg']:
                                if v != init_d:
                                    cut.add((i, b))
                            if init_d in listed:
                                cut.add((i, t['else']))
        r = prims.reach(pb, (0,), cut_edges=cut)
        ok = any(b in r for b in cmp_bbs)
        if not ok:
            R.fail('P2', ne.fn, 'the uniqueness test covers exchanges in the Initiator role',
                   'for an exchange whose role is Initiator the predicate never reaches the id comparison (the role filter inspects Role::Responder only): the id of a live initiator '
                   'exchange is issued again once the 16-bit counter wraps', pb.where(cmp_bbs[0]) if cmp_bbs else '', key='P2|' + ne.fn + '|initiator exchanges not compared')
        else:
            R.ok('P2', ne.fn, 'the uniqueness test covers exchanges in the Initiator role', f'id comparison reachable for Role::Initiator (role switches: {role_sw})')
        fm = [t for t in ne.calls() if t.d.get('f', '').endswith('Iterator::flat_map')]
        R.expect('P9', ne.fn, 'the scan covers the exchanges of every session', len(fm) == 1 and mentions(prims.sources(ne, fm[0].d['a'][0], through={'core::slice::<impl [T]>::iter'}), 'sessions'), 'sessions.iter().flat_map(exchanges)', 'scan changed')


    # ---- f --------------------------------------------------------------------
    with R.clause('f'):
        # Session::pre_send reuses the counter of the exchange's pending retransmission for WHATEVER is sent with that exchange index.
        # Transport-generated packets (stand-alone ACKs, status reports, eviction notices) therefore go out with exch_index = None,
        # except the clean-up ACK of a dropped exchange, which runs only when no retransmission is pending.
        WP = 'transport::TransportRunner::write_packet'
        sites = [(b, t) for b in F.bodies.values() if b.focus and '::tests::' not in b.fn for t in b.calls(WP)]
        R.floor('TransportRunner::write_packet call sites', len(sites), 6)
        with_exch = []
        for b, t in sites:
            src = prims.sources(b, t.d['a'][3])
            none_only = src and all((x[0] == 'agg' and x[1] == 'core::option::Option' and x[2] == 'None') for x in src)
            if not none_only:
                with_exch.append((b, t))
        allowed = [(b, t) for b, t in with_exch if F.owner_fn(b.fn).endswith('::handle_dropped_exchange')]
        other = [(b, t) for b, t in with_exch if not F.owner_fn(b.fn).endswith('::handle_dropped_exchange')]
        R.expect('P1', WP, 'transport-generated packets are sent outside any exchange (exch_index = None), except the dropped-exchange clean-up ACK',
                 not other, f'{len(sites) - len(with_exch)} sites pass None; {len(allowed)} in handle_dropped_exchange',
                 '; '.join(f'{b.fn} at {b.where(t.bb)} passes an exchange index: if that exchange has a pending retransmission the packet is sent under the retransmission\'s message counter'
                           for b, t in other), other[0][0].where(other[0][1].bb) if other else '')
        R.floor('clean-up ACK site in handle_dropped_exchange', len(allowed), 1)
        for b, t in allowed:
            # the flag that tells the two lookups apart: a bool taken out of the lookup result (whatever it is called)
            cs = [l for l in range(len(b.locals or ())) if b.local_ty(l) == 'bool' and any(
                k == 'assign' and pl_[1].get('op') == 'use' and op_place(pl_[1]['a'][0]) and len(op_place(pl_[1]['a'][0])) > 1
                and any(c.endswith(('::get_exch', 'Option::or_else', 'Option::map')) for c in src_calls(prims.sources(b, op_place(pl_[1]['a'][0])[0])))
                for (bb_, i_, k, pl_) in b.defs.get(l, ()))]
            R.floor('lookup-kind flag in handle_dropped_exchange', len(cs), 1)
            te, fe = set(), set()
            for l in cs:
                a_, b_ = prims.bool_local_edges(b, l)
                te |= a_
                fe |= b_
            R.cut('P2', b, 'send a stand-alone ACK through the dropped exchange', [t.bb], 'the exchange has no pending retransmission (close_session == false)', fe)

    # ---- h --------------------------------------------------------------------
    with R.clause('h'):
        # the single TX packet is shared by every exchange: the header of a message must not inherit anything from the previous user of
        # the buffer.  MessageMeta::set_into and Session::pre_send only SET the acknowledgement flag / counter when there is one to send,
        # so TxMessage::complete has to start from a header whose two halves were both overwritten whole - otherwise a message with
        # nothing to acknowledge carries whatever ACK the buffer saw last, and its retransmission (built after other traffic) another one
        PHDR = 'transport::packet::PacketHdr'
        tc = R.body('transport::exchange::TxMessage::complete')

        def whole_writes(body, fld):
            return [i for i, j, st in body.stmts() if st[0] and st[0][-1] == '.' + fld + ':' + PHDR and not body.is_cleanup(i)]
        fills = call_bbs(tc, 'transport::exchange::MessageMeta::set_into')
        ps_clo = closure_in(R, tc.fn, ['Session::pre_send'])
        fills += [t.bb for t in closure_arg_sites(tc, ps_clo.fn)]
        R.floor('header filling sites in TxMessage::complete (set_into, with_state(pre_send))', len(fills), 2)
        for fld in ('plain', 'proto'):
            resets = whole_writes(tc, fld)
            for t in tc.calls():
                for n in t.callee_names():
                    cb_ = F.bodies.get(n)
                    if cb_ is not None and cb_.focus and whole_writes(cb_, fld) and not prims.precedes(cb_, whole_writes(cb_, fld), cb_.ret_blocks()):
                        resets.append(t.bb)
            miss = prims.precedes(tc, resets, fills) if resets else fills
            R.expect('P3', tc.fn, f'the {fld} header is overwritten whole before the message\'s own values are filled in', not miss,
                     f'{len(resets)} whole write(s) of header.{fld} precede set_into / pre_send on every path',
                     f'header.{fld} is filled in at {[tc.where(x) for x in miss][:2]} without having been reset: fields the message does not set (the ACK flag and counter of a message '
                     'with nothing to acknowledge) keep the values of whatever used the shared TX packet last', tc.where(fills[0]))

    # ---- g --------------------------------------------------------------------
    with R.clause('g'):
        # a retransmission is bit-identical only if the acknowledgement it piggy-backs does not change in between: a received message
        # that is dropped as Duplicate (stale ACK while a retransmission is pending) must leave the exchange's MRP state untouched
        pr = R.body('transport::mrp::ReliableMessage::post_recv')
        dup = variant_bbs(pr, 'error::ErrorCode', 'Duplicate')
        R.floor('Err(Duplicate) in ReliableMessage::post_recv', len(dup), 1)
        writes = set()
        for i, j, st in pr.stmts():
            pl = st[0]
            if pl[0] == 1 and len(pl) >= 3 and pl[1] == '*' and isinstance(pl[2], str) and pl[2].startswith('.') and not pr.is_cleanup(i):
                writes.add(i)
        for i, blk in enumerate(pr.bbs):
            t = blk['t']
            if t['t'] == 'call' and not blk.get('c') and t.get('d') and t['d'][0] == 1 and len(t['d']) >= 3:
                writes.add(i)
        R.floor('MRP state writes in post_recv', len(writes), 3)
        anc, work = set(), list(dup)
        while work:
            x = work.pop()
            for p_ in pr.pred[x]:
                if p_ not in anc and not pr.is_cleanup(p_):
                    anc.add(p_)
                    work.append(p_)
        bad = sorted(writes & anc)
        R.expect('P3', pr.fn, 'no MRP state (ack / retrans / received_at) is written on a path that ends in Err(Duplicate)', not bad,
                 f'{len(writes)} writes, none precedes the Duplicate return', 'state written at ' + ', '.join(pr.where(x) for x in bad) +
                 ' before the message is dropped as Duplicate: the pending retransmission will piggy-back a different acknowledgement than the original transmission',
                 pr.where(bad[0]) if bad else '')


def _locals(body, operand):
    out = set()
    p = op_place(operand)
    if not p:
        return out
    work = [p[0]]
    while work:
        l = work.pop()
        if l in out:
            continue
        out.add(l)
        for (bb, i, kind, payload) in body.defs.get(l, ()):
            if kind == 'assign' and payload[1].get('op') in ('use', 'cast'):
                q = op_place(payload[1]['a'][0])
                if q:
                    work.append(q[0])
    return out
