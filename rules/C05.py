"""C05 - Access is granted exactly when the Matter access-control algorithm grants it."""
from common import (mentions, closure_in, call_bbs, named_local, src_calls, src_fields, src_consts)
from facts import AnchorLost, op_place
import prims

EXPLANATION = """
Static structural rules over acl.rs, fabric.rs and dm/types/privilege.rs:
(a) fabric separation: AclEntry::match_accessor's only non-false result is the value of
self.fab_idx.map(|i| i.get() == accessor.fab_idx).unwrap_or(false) (closure located by content, comparison Eq), reached
only on the allow edge and cut by the auth-mode comparison; Fabrics::allow consults self.get(accessor.fab_idx()) and
returns false on both missing-fabric edges; (b) the implicit grant: the only constant-true result of Fabrics::allow is
cut by auth_mode() == Some(AuthMode::Pase), every other result is Fabric::allow's; (c) the privilege lattice constants
(CTFE values) satisfy VIEW < OPERATE < MANAGE < ADMIN bitwise, line up with Access::NEED_*, and the read/write masks are
the OR of the listed bits; Access::is_ok's non-false result is cut by (privilege & required) != 0; (d) CAT matching in
AccessorSubjects::matches: identifiers compared with Eq, versions with accessor >= entry (or the mirrored <=);
(e) AclEntry::allow <- Fabric::allow <- Fabrics::allow <- AccessReq::allow is the only evaluation chain, and AclEntry::allow
is the conjunction of match_accessor and match_access_desc; (f) group accessors: Accessor::is_endpoint_accessible returns
constant true only when the mode is not Group, otherwise the membership lookup of the accessor's own fabric and group.
"""
CLAUSES = ['a: fabric separation', 'b: implicit PASE grant is exactly that', 'c: privilege lattice constants and mask test',
           'd: CAT id equal, version greater-or-equal; every subject slot is scanned', 'e: single evaluation chain', 'f: group accessors reach member endpoints only',
           'g: identifiers are compared at full width (no truncating cast in the matching code)']
NOT_DECIDED = ['equality with a reference decision over all entries x accessors x targets (value-level)', 'target/device-type matching details beyond comparison width']
MIN_OBLIGATIONS = {'q': 25, 'd': 20, 'r': 25}


def check(R):
    F = R.facts
    groups = 'groups' in (F.hdr.get('features') or '')
    # ---- a --------------------------------------------------------------------
    with R.clause('a'):
        pass
        ma = R.body('acl::AclEntry::match_accessor')
        defs = prims.result_defs(ma)
        nonfalse = [(bb, k, p) for (bb, k, p) in defs if not (k == 'const' and p == 0)]
        R.floor('result definitions of match_accessor', len(defs), 2)
        ok = all(k == 'call' and p.get('f') == 'core::option::Option::unwrap_or' for (bb, k, p) in nonfalse) and bool(nonfalse)
        R.expect('P10', ma.fn, 'the only non-false result is fab_idx.map(..).unwrap_or(false)', ok,
                 f'{len(nonfalse)} non-false result definition(s), all Option::unwrap_or',
                 f'non-false results: {[(ma.where(bb), k, (p.get("f") if isinstance(p, dict) else p)) for bb, k, p in nonfalse]}')
        for (bb, k, p) in nonfalse:
            if k != 'call':
                continue
            srcs = prims.sources(ma, p['a'][0], through={'core::option::Option::map'})
            R.expect('P10', ma.fn, 'unwrap_or default is false and the Option derives from self.fab_idx',
                     p['a'][1].get('k', {}).get('v') == 0 and mentions(srcs, 'fab_idx') and 'core::option::Option::map' in src_calls(srcs),
                     'self.fab_idx.map(cmp).unwrap_or(false)', f'sources {sorted(map(str, srcs))[:6]}, default {p["a"][1]}', ma.where(bb))
        cmpc = closure_in(R, 'acl::AclEntry::match_accessor', ['NonZero::get'])
        cs = prims.compare_sites(cmpc, ops=('Eq', 'Ne', 'Le', 'Ge', 'Lt', 'Gt'))
        good = [c for c in cs if c[2] == 'Eq' and mentions(prims.sources(cmpc, c[3]) | prims.sources(cmpc, c[4]), 'fab_idx')
                and 'core::num::nonzero::NonZero::get' in src_calls(prims.sources(cmpc, c[3]) | prims.sources(cmpc, c[4]))]
        R.expect('P10', cmpc.fn, 'entry fabric index is compared for equality with the accessor fabric index', len(good) == 1 and len(cs) == 1,
                 'fab_idx.get() == accessor.fab_idx', f'comparisons: {[(c[2]) for c in cs]}', f'{cmpc.file}:{cmpc.line}')
        rd = prims.result_defs(cmpc)
        R.expect('P10', cmpc.fn, 'the closure returns the comparison itself', all(k == 'expr' and p.get('op') == 'bin' and p.get('b') == 'Eq' for bb, k, p in rd) and bool(rd),
                 'return a == b', f'result defs {[(k) for bb, k, p in rd]}')
        # auth mode must match: non-false results cut by the `!=` being false
        ne = ma.calls('core::cmp::PartialEq::ne')
        R.floor('auth-mode comparison in match_accessor', len(ne), 1)
        s = set()
        for a in ne[0].d['a']:
            s |= prims.sources(ma, a)
        R.expect('P10', ma.fn, 'auth modes of entry and accessor are compared', mentions(s, 'auth_mode') and ('arg', 2) in s and ('arg', 1) in s,
                 'Some(self.auth_mode) != accessor.auth_mode', f'sources {sorted(map(str, s))[:6]}', ma.where(ne[0].bb))
        R.cut('P2', ma, 'non-false result', [bb for bb, k, p in nonfalse], 'auth modes equal',
              lambda: _false_edges(R, ma, ne[0]))
        allow = named_local(ma, 'allow')
        te = set()
        for l in allow:
            te |= prims.bool_local_edges(ma, l)[0]
        R.cut('P2', ma, 'non-false result', [bb for bb, k, p in nonfalse], 'subject match (allow == true)', te)
        subj = closure_in(R, 'acl::AclEntry::match_accessor', ['AccessorSubjects::matches'])
        R.expect('P4', subj.fn, 'subject matching goes through AccessorSubjects::matches', True, 'located by content', '')

        fa = R.body('fabric::Fabrics::allow')
        defs = prims.result_defs(fa)
        trues = [bb for bb, k, p in defs if k == 'const' and p == 1]
        others = [(bb, k, p) for bb, k, p in defs if not (k == 'const')]
        R.expect('P10', fa.fn, 'every non-constant result is Fabric::allow', all(k == 'call' and p.get('f') == 'fabric::Fabric::allow' for bb, k, p in others) and len(others) == 1,
                 'fabric.allow(req, aux)', f'{[(k, p.get("f") if isinstance(p, dict) else p) for bb, k, p in others]}')
        R.floor('constant-true results of Fabrics::allow', len(trues), 1)
        eq = fa.calls('core::cmp::PartialEq::eq')
        R.floor('auth-mode comparison in Fabrics::allow', len(eq), 1)
        s = set()
        for a in eq[0].d['a']:
            s |= prims.sources(fa, a)
        R.expect('P10', fa.fn, 'the implicit grant tests auth_mode() against AuthMode::Pase',
                 'acl::Accessor::auth_mode' in src_calls(s) and ('agg', 'acl::AuthMode', 'Pase') in s and not [x for x in s if x[0] == 'agg' and x[1] == 'acl::AuthMode' and x[2] != 'Pase'],
                 'auth_mode() == Some(Pase)', f'sources {sorted(map(str, s))[:8]}', fa.where(eq[0].bb))
        R.cut('P2', fa, 'return true', trues, 'auth_mode() == Some(AuthMode::Pase)', lambda: R.call_guard(fa, 'core::cmp::PartialEq::eq'))
        call = [p for bb, k, p in others if k == 'call']
        if call:
            srcs = prims.sources(fa, call[0]['a'][0], through={'fabric::Fabrics::get', 'acl::Accessor::fab_idx', 'acl::AccessReq::accessor'})
            R.expect('P10', fa.fn, 'the fabric consulted is the accessor\'s own', 'fabric::Fabrics::get' in src_calls(srcs) and 'acl::Accessor::fab_idx' in src_calls(srcs),
                     'self.get(req.accessor().fab_idx()?)', f'sources {sorted(map(str, srcs))[:8]}')
            cbb = [bb for bb, k, p in others]
            R.cut('P2', fa, 'Fabric::allow', cbb, 'accessor.fab_idx() is a real index', lambda: R.call_guard(fa, 'acl::Accessor::fab_idx'))
            R.cut('P2', fa, 'Fabric::allow', cbb, 'the fabric exists', lambda: R.call_guard(fa, 'fabric::Fabrics::get'))
        fb = R.body('fabric::Fabric::allow')
        R.expect('P4', fb.fn, 'Fabric::allow evaluates its own ACL entries with AclEntry::allow',
                 any('acl::AclEntry::allow' in b.calls_summary for b in [fb] + F.nested(fb.fn)), 'entries.any(|e| e.allow(req))', 'AclEntry::allow not called')
        rd = prims.result_defs(fb)
        trues_fb = [bb for bb, k, p in rd if k == 'const' and p == 1]
        R.expect('P10', fb.fn, 'Fabric::allow returns only constants decided by AclEntry::allow', all(k == 'const' for bb, k, p in rd) and bool(trues_fb), 'ok', 'non-constant result')
        R.cut('P2', fb, 'return true', trues_fb, 'some entry\'s AclEntry::allow == true', lambda: R.call_guard(fb, 'acl::AclEntry::allow'))

    # ---- c --------------------------------------------------------------------
    with R.clause('c'):
        pass
        P = 'dm::types::privilege::Privilege::'
        A = 'dm::types::privilege::Access::'
        v, o, m, a = (F.const_val(P + n) for n in ('VIEW', 'OPERATE', 'MANAGE', 'ADMIN'))
        R.expect('P6', P, 'privilege lattice VIEW < OPERATE < MANAGE < ADMIN (bitwise inclusion)',
                 v and (v & o) == v and v != o and (o & m) == o and o != m and (m & a) == m and m != a, f'{v:#x} {o:#x} {m:#x} {a:#x}', f'{v:#x} {o:#x} {m:#x} {a:#x}')
        nv, no, nm, na = (F.const_val(A + n) for n in ('NEED_VIEW', 'NEED_OPERATE', 'NEED_MANAGE', 'NEED_ADMIN'))
        bits = [F.const_val(P + n) for n in ('V', 'O', 'M', 'A')]
        R.expect('P6', A, 'NEED_* bits line up with the privilege bits', [nv, no, nm, na] == bits and len(set(bits)) == 4 and all(b & (b - 1) == 0 for b in bits),
                 str(bits), f'NEED {[nv, no, nm, na]} vs privilege bits {bits}')
        R.expect('P6', P, 'each privilege level carries exactly the bits up to its own',
                 (v, o, m, a) == (bits[0], bits[0] | bits[1], bits[0] | bits[1] | bits[2], bits[0] | bits[1] | bits[2] | bits[3]), 'ok', f'{(v, o, m, a)}')
        R.expect('P6', A, 'read mask = V|O|M|A, write mask = O|M|A', F.const_val(A + 'READ_PRIVILEGE_MASK') == nv | no | nm | na and F.const_val(A + 'WRITE_PRIVILEGE_MASK') == no | nm | na,
                 'ok', f'{F.const_val(A + "READ_PRIVILEGE_MASK")} {F.const_val(A + "WRITE_PRIVILEGE_MASK")}')
        pv = F.const_val(P + 'PROXYVIEW')
        R.expect('P6', P, 'ProxyView shares no bit with the required-privilege bits', pv & (nv | no | nm | na) == 0, hex(pv), hex(pv))
        for n in ('READ', 'WRITE', 'FAB_SCOPED', 'FAB_SENSITIVE', 'TIMED_ONLY'):
            c = F.const_val(A + n)
            R.expect('P6', A, f'Access::{n} is a single bit disjoint from the NEED_* bits', c & (c - 1) == 0 and c & 0xf == 0, hex(c), hex(c))
        iso = R.body('dm::types::privilege::Access::is_ok')
        nf = prims.nonfalse_result_bbs(iso)
        R.floor('non-false results of Access::is_ok', len(nf), 1)

        def priv_and_required():
            e = set()
            for (bb, j, op, a1, a2, d) in prims.compare_sites(iso, ops=('Eq',)):
                s1, s2 = prims.sources(iso, a1), prims.sources(iso, a2)
                if (0 in src_consts(s2) or 0 in src_consts(s1)) and any(x[0] == 'arg' and x[1] == 3 for x in s1 | s2):
                    e |= prims.bool_local_edges(iso, d)[1]
            return e
        R.cut('P2', iso, 'non-false result', nf, '(privilege & required) != 0', priv_and_required)
        R.cut('P2', iso, 'non-false result', nf, 'required privilege set is not empty', lambda: _false_edges_name(R, iso, 'is_empty'))
        for (bb, k, p) in prims.result_defs(iso):
            if k == 'call':
                R.expect('P10', iso.fn, 'the granted result is self.contains(operation)', p.get('f', '').endswith('::contains'), p.get('f'), p.get('f'))
        mad = R.body('acl::AclEntry::match_access_desc')
        nf = prims.result_defs(mad)
        R.expect('P10', mad.fn, 'the only non-false result of match_access_desc is Access::is_ok(operation, self.privilege)',
                 all((k == 'const' and p == 0) or (k == 'call' and p.get('f') == 'dm::types::privilege::Access::is_ok') for bb, k, p in nf) and any(k == 'call' for bb, k, p in nf),
                 'access.is_ok(..)', f'{[(k, p.get("f") if isinstance(p, dict) else p) for bb, k, p in nf]}')
        for (bb, k, p) in nf:
            if k == 'call':
                s = prims.sources(mad, p['a'][2])
                R.expect('P10', mad.fn, 'the privilege tested is the entry\'s own', mentions(s, 'privilege') and ('arg', 1) in s, 'self.privilege', f'{sorted(map(str, s))[:5]}', mad.where(bb))

    # ---- d --------------------------------------------------------------------
    with R.clause('d'):
        pass
        # "CAT ... of the accessor": every CAT of the NOC must make it into the accessor's subject list - the scans over the fixed-size
        # subjects array (add_catid looking for a free slot, matches going through them) cover the WHOLE array: no constant-bounded
        # sub-range that stops short of the last slot (the resulting ResourceExhausted is discarded by Accessor::for_session by design)
        import p7
        NSUB = F.const_val('acl::MAX_ACCESSOR_SUBJECTS')
        for fn in ('acl::AccessorSubjects::add_catid', 'acl::AccessorSubjects::matches'):
            short = []
            nb = 0
            for b_ in [R.body(fn)] + list(F.nested(fn)):
                nb += 1
                for i, j, st in b_.stmts():
                    rv = st[1]
                    if rv.get('op') == 'agg' and str(rv.get('adt', '')).startswith('core::ops::range::Range'):
                        vals = dict(zip(rv.get('fields', ()), rv['a']))
                        if 'end' in vals:
                            e = p7._eval_key(p7.expr_key(b_, vals['end']))
                            if e is not None and e + (1 if 'Inclusive' in rv['adt'] else 0) < NSUB:
                                short.append(f'{b_.where(i)}: ..{e}')
            R.expect('P6', fn, f'the scan over the accessor\'s subject slots covers all {NSUB} of them', not short, 'no sub-range that ends before the last slot',
                     f'sub-range {short} of a {NSUB}-slot array: the last CAT slot is never used, the third CAT of a NOC is silently dropped and an ACL entry naming it no longer grants')
        mt = R.body('acl::AccessorSubjects::matches')
        ids = [c for c in prims.compare_sites(mt) if 'acl::get_noc_cat_id' in src_calls(prims.sources(mt, c[3])) and 'acl::get_noc_cat_id' in src_calls(prims.sources(mt, c[4]))]
        vers = [c for c in prims.compare_sites(mt) if 'acl::get_noc_cat_version' in src_calls(prims.sources(mt, c[3])) and 'acl::get_noc_cat_version' in src_calls(prims.sources(mt, c[4]))]
        R.expect('P10', mt.fn, 'CAT identifiers are compared for equality', len(ids) == 1 and ids[0][2] == 'Eq', 'Eq', f'{[c[2] for c in ids]}')
        okv = False
        if len(vers) == 1:
            bb, j, op, a1, a2, d = vers[0]
            l_is_entry = ('arg', 2) in prims.sources(mt, a1, through={'acl::get_noc_cat_version'})
            r_is_entry = ('arg', 2) in prims.sources(mt, a2, through={'acl::get_noc_cat_version'})
            okv = (op == 'Ge' and r_is_entry and not l_is_entry) or (op == 'Le' and l_is_entry and not r_is_entry)
        R.expect('P10', mt.fn, 'CAT version: accessor >= entry', okv, 'version(accessor) >= version(acl_subject)', f'{[(c[2]) for c in vers]}')
        cats = mt.calls('acl::is_noc_cat')
        R.expect('P2', mt.fn, 'both the accessor subject and the entry subject are tested with is_noc_cat before the CAT comparison', len(cats) >= 2,
                 f'{len(cats)} is_noc_cat tests', f'only {len(cats)} is_noc_cat test(s): a plain node id can be compared as if it were a CAT')
        trues = [bb for bb, k, p in prims.result_defs(mt) if k == 'const' and p == 1]
        R.floor('true results in AccessorSubjects::matches', len(trues), 2)
        others = [1 for bb, k, p in prims.result_defs(mt) if k != 'const']
        R.expect('P10', mt.fn, 'matches() returns only constants decided by the comparisons', not others, 'ok', 'non-constant result')

        def cat_or_exact():
            e = set()
            if vers:
                e |= prims.bool_local_edges(mt, vers[0][5])[0]
            for c in prims.compare_sites(mt, ops=('Eq',)):
                s1, s2 = prims.sources(mt, c[3]), prims.sources(mt, c[4])
                if ('arg', 2) in (s1 | s2) and not ('acl::get_noc_cat_id' in src_calls(s1 | s2)) and not (0 in src_consts(s1 | s2)):
                    e |= prims.bool_local_edges(mt, c[5])[0]
            return e
        R.cut('P2', mt, 'return true', trues, 'exact subject match or (same CAT id and version >=)', cat_or_exact)
        def exact_edges():
            e = set()
            for c in prims.compare_sites(mt, ops=('Eq',)):
                s1, s2 = prims.sources(mt, c[3]), prims.sources(mt, c[4])
                if ('arg', 2) in (s1 | s2) and not ('acl::get_noc_cat_id' in src_calls(s1 | s2)) and not (0 in src_consts(s1 | s2)):
                    e |= prims.bool_local_edges(mt, c[5])[0]
            return e
        if ids:
            R.cut('P2', mt, 'return true', trues, 'exact subject match or CAT ids equal', lambda: exact_edges() | prims.bool_local_edges(mt, ids[0][5])[0])
        for t in cats:
            R.cut('P2', mt, 'return true', trues, f'exact subject match or is_noc_cat@{mt.where(t.bb)}',
                  lambda t=t: exact_edges() | prims.track_result(F, mt, t).success)

    # ---- e --------------------------------------------------------------------
    with R.clause('e'):
        pass
        R.callers_confined('P1', 'acl::AclEntry::allow', {'fabric::Fabric::allow'})
        R.callers_confined('P1', 'fabric::Fabric::allow', {'fabric::Fabrics::allow'})
        R.callers_confined('P1', 'fabric::Fabrics::allow', {'acl::AccessReq::allow'})
        R.callers_confined('P1', 'acl::AclEntry::match_accessor', {'acl::AclEntry::allow'})
        R.callers_confined('P1', 'acl::AclEntry::match_access_desc', {'acl::AclEntry::allow'})
        ea = R.body('acl::AclEntry::allow')
        rd = prims.result_defs(ea)
        R.expect('P10', ea.fn, 'AclEntry::allow = match_accessor && match_access_desc',
                 all((k == 'const' and p == 0) or (k == 'call' and p.get('f') == 'acl::AclEntry::match_access_desc') for bb, k, p in rd) and any(k == 'call' for bb, k, p in rd),
                 'ok', f'{[(k, p.get("f") if isinstance(p, dict) else p) for bb, k, p in rd]}')
        R.cut('P2', ea, 'match_access_desc (and any non-false result)', call_bbs(ea, 'acl::AclEntry::match_access_desc'), 'match_accessor == true',
              lambda: R.call_guard(ea, 'acl::AclEntry::match_accessor'))
        ra = closure_in(R, 'acl::AccessReq::allow', ['Fabrics::allow'])
        rd = prims.result_defs(ra)
        allowed_calls = {'fabric::Fabrics::allow', 'acl::AccessReq::allow_groupcast_auxiliary'}
        R.expect('P10', ra.fn, 'AccessReq::allow grants only through Fabrics::allow (or the group auxiliary entry)',
                 all((k == 'const' and p in (0, 1) and False) or (k == 'call' and p.get('f') in allowed_calls) or (k == 'const' and p == 1 and False) or (k == 'const' and p == 0) or (k == 'const' and p == 1)
                     for bb, k, p in rd) and not _const_true_without(R, ra, rd),
                 'ok', f'{[(k, p.get("f") if isinstance(p, dict) else p) for bb, k, p in rd]}')

    # ---- f --------------------------------------------------------------------
    with R.clause('f'):
        pass
        ie = R.body('acl::Accessor::is_endpoint_accessible')
        rd = prims.result_defs(ie)
        trues = [bb for bb, k, p in rd if k == 'const' and p == 1]
        R.floor('constant-true result of is_endpoint_accessible', len(trues), 1)

        def not_group():
            ne = ie.calls('core::cmp::PartialEq::ne')
            if not ne:
                raise AnchorLost('auth_mode != Some(Group) test missing')
            s = set()
            for a in ne[0].d['a']:
                s |= prims.sources(ie, a)
            if not (mentions(s, 'auth_mode') and ('agg', 'acl::AuthMode', 'Group') in s):
                return set()
            return prims.track_result(F, ie, ne[0]).success
        R.cut('P2', ie, 'return true', trues, 'auth_mode != Some(AuthMode::Group)', not_group)
        if groups:
            others = [(bb, k, p) for bb, k, p in rd if k != 'const']
            R.expect('P10', ie.fn, 'group accessors: result is the membership lookup', all(k == 'call' and p.get('f') == 'Matter::with_state' for bb, k, p in others) and bool(others),
                     'matter.with_state(|s| membership)', f'{[(k, p.get("f") if isinstance(p, dict) else p) for bb, k, p in others]}')
            mem = closure_in(R, 'acl::Accessor::is_endpoint_accessible', ['Fabrics::get'])
            rd = prims.result_defs(mem)
            R.expect('P10', mem.fn, 'membership lookup: false on a missing fabric, else groups().get(id).is_some_and(contains)',
                     all((k == 'const' and p == 0) or (k == 'call' and p.get('f') == 'core::option::Option::is_some_and') for bb, k, p in rd) and any(k == 'call' for bb, k, p in rd),
                     'ok', f'{[(k, p.get("f") if isinstance(p, dict) else p) for bb, k, p in rd]}')
            R.cut('P2', mem, 'membership result', [bb for bb, k, p in rd if k == 'call'], 'the accessor\'s fabric exists', lambda: R.call_guard(mem, 'fabric::Fabrics::get'))
            inner = closure_in(R, 'acl::Accessor::is_endpoint_accessible', ['contains'])
            R.expect('P4', inner.fn, 'membership is endpoints.contains(&endpoint_id)', True, 'located by content', '')

    # ---- g --------------------------------------------------------------------
    with R.clause('g'):
        # identifiers are compared at full width: the entry-matching code (subjects, targets, device types, CATs) contains no integer
        # cast that can lose bits - a target for device type 0xFFF1_0100 must not match an endpoint of type 0x0100
        import p7
        mb = [b for b in F.bodies.values() if b.focus and '::tests::' not in b.fn and b.fn.lstrip('<').startswith(('acl::AclEntry::match_', 'acl::AccessorSubjects::matches', 'acl::AclEntry::allow',
                                                                                                                'acl::AccessReq::allow', 'fabric::Fabric::allow', 'fabric::Fabrics::allow'))]
        R.floor('entry-matching bodies', len(mb), 6)
        ncast = 0
        for b in sorted(mb, key=lambda b: b.fn):
            for i, j, st in b.stmts():
                rv = st[1]
                if rv.get('op') != 'cast' or rv.get('ck') != 'IntToInt' or b.is_cleanup(i):
                    continue
                dt = b.local_ty(st[0][0]) if len(st[0]) == 1 else None
                if dt not in p7.INT_BITS:
                    continue
                ncast += 1
                need = p7.max_bits(b, rv['a'][0]) or p7._ty_bits(b, rv['a'][0]) or 128
                R.expect('P6', b.fn, f'integer cast #{ncast} ({p7.expr_key(b, rv["a"][0])} as {dt}) keeps every bit', need <= p7.INT_BITS[dt], f'{need} bits into {dt}',
                         f'{p7.expr_key(b, rv["a"][0])} ({need} bits) is truncated to {dt}: two different identifiers can compare equal', b.where(i, j))
        R.floor('integer casts examined in the matching code', ncast, 1)


def _false_edges(R, body, site):
    tr = prims.track_result(R.facts, body, site)
    return tr.failure


def _false_edges_name(R, body, suffix):
    e = set()
    for t in body.calls():
        if t.d.get('f', '').endswith('::' + suffix):
            e |= prims.track_result(R.facts, body, t).failure
    return e


def _const_true_without(R, body, rd):
    # a constant true in AccessReq::allow's closure may only arise from `a || b` lowering, i.e. be cut by a call's true edge
    trues = [bb for bb, k, p in rd if k == 'const' and p == 1]
    if not trues:
        return False
    e = set()
    for t in body.calls('fabric::Fabrics::allow', 'acl::AccessReq::allow_groupcast_auxiliary'):
        e |= prims.track_result(R.facts, body, t).success
    r = prims.reach(body, (0,), cut_edges=e)
    return any(b in r for b in trues)
