"""Rule primitives P1..P10 over the MIR facts (see DESIGN.md §3).

All functions are pure graph / def-use computations on facts extracted from the
compiled program; none runs rs-matter code.
"""
from collections import defaultdict, deque

from facts import AnchorLost, Unrecognised, op_place, op_local, op_const

SUCCESS_VARIANTS = {'Ok', 'Some', 'Continue', 'Ready'}

# callee (declared path) -> polarity-preserving adapter on its first argument:
# success of the output implies success of the input.
ADAPTERS_SAME = {
    'core::result::Result::map_err', 'core::result::Result::map',
    'core::result::Result::inspect_err', 'core::result::Result::inspect',
    'core::result::Result::ok', 'core::result::Result::and_then',
    'core::result::Result::as_ref', 'core::result::Result::as_mut',
    'core::result::Result::copied', 'core::result::Result::cloned',
    'core::option::Option::ok_or', 'core::option::Option::ok_or_else',
    'core::option::Option::map', 'core::option::Option::as_ref',
    'core::option::Option::as_mut', 'core::option::Option::and_then',
    'core::option::Option::filter', 'core::option::Option::copied',
    'core::option::Option::cloned', 'core::option::Option::inspect',
    'core::option::Option::as_deref', 'core::option::Option::as_deref_mut',
    'core::option::Option::take',
    'core::convert::Into::into', 'core::convert::From::from',
    'core::clone::Clone::clone',
    'std::result::Result::<T, E>::map_err', 'std::result::Result::<T, E>::map',
}
IS_POS = {'core::result::Result::is_ok', 'core::option::Option::is_some',
          'core::result::Result::is_ok_and', 'core::option::Option::is_some_and'}
IS_NEG = {'core::result::Result::is_err', 'core::option::Option::is_none'}
TRY_BRANCH = 'core::ops::try_trait::Try::branch'
INTO_FUTURE = 'core::future::into_future::IntoFuture::into_future'
PIN_NEW = {'core::pin::Pin::new_unchecked', 'core::pin::Pin::new'}
POLL = 'core::future::future::Future::poll'


def _norm(name):
    """std:: and core::/alloc:: re-exports print differently; normalise."""
    return name
    for a, b in (('std::result::', 'core::result::'), ('std::option::', 'core::option::'),
                 ('std::ops::', 'core::ops::'), ('std::future::', 'core::future::'),
                 ('std::pin::', 'core::pin::'), ('std::convert::', 'core::convert::'),
                 ('std::clone::', 'core::clone::'), ('std::task::', 'core::task::'),
                 ('std::cmp::', 'core::cmp::'), ('std::iter::', 'core::iter::'),
                 ('std::mem::', 'core::mem::'), ('std::slice::', 'core::slice::'),
                 ('std::num::', 'core::num::')):
        if name.startswith(a):
            return b + name[len(a):]
    return name


def callee_of(t):
    return _norm(t.get('f', ''))


# --------------------------------------------------------------------------
# env-sensitive reachability (threads constant-assigned bool/int temporaries
# through the switch that tests them: `matches!`, `&&`, `||`, `if let ... else`)
# --------------------------------------------------------------------------
def _phi_locals(body):
    """locals all of whose definitions are `X = const <int>` or a copy of such a
    local (and which are not arguments)."""
    cached = getattr(body, '_phi', None)
    if cached is not None:
        return cached
    phi = set()
    changed = True
    while changed:
        changed = False
        for l, ds in body.defs.items():
            if l in phi or l <= body.argc:
                continue
            ok = bool(ds)
            for (_bb, _i, kind, payload) in ds:
                if kind != 'assign':
                    ok = False
                    break
                rv = payload[1]
                if rv.get('op') != 'use':
                    ok = False
                    break
                a = rv['a'][0]
                k = a.get('k')
                if k is not None:
                    if 'v' not in k:
                        ok = False
                        break
                else:
                    pl = op_place(a)
                    if pl is None or len(pl) != 1 or pl[0] not in phi:
                        ok = False
                        break
            if ok:
                phi.add(l)
                changed = True
    body._phi = phi
    return phi


def infeasible_edges(body):
    """Edges that no execution takes: the Continue edge of `Err(e)?` / `None?`
    (Try::branch applied to a value every definition of which constructs the
    failure variant)."""
    cached = getattr(body, '_infeasible', None)
    if cached is not None:
        return cached
    out = set()
    body._infeasible = out
    for i, blk in enumerate(body.bbs):
        t = blk['t']
        if t['t'] != 'call' or blk.get('c') or t.get('f') != TRY_BRANCH or not t['a']:
            continue
        a0 = op_place(t['a'][0])
        if a0 is None or len(a0) != 1:
            continue
        ds = body.defs.get(a0[0], ())
        if not ds:
            continue
        allfail = True
        for (_bb, _i, kind, payload) in ds:
            if kind != 'assign' or payload[1].get('op') != 'agg' or payload[1].get('var') not in ('Err', 'None'):
                allfail = False
        if not allfail:
            continue
        from facts import Term
        try:
            tr = _track_result(None, body, Term(i, t))
        except Exception:
            continue
        out |= tr.success
    return out


def reach(body, starts=(0,), cut_edges=(), cut_blocks=(), want_parents=False):
    """Blocks reachable along normal control flow, with constant threading."""
    phi = _phi_locals(body)
    cut_edges = set(cut_edges) | infeasible_edges(body)
    cut_blocks = set(cut_blocks)
    seen = set()
    parents = {}
    work = deque()
    for s in starts:
        if s not in cut_blocks:
            st = (s, frozenset())
            work.append(st)
            parents[st] = None
    blocks = set()
    while work:
        st = work.popleft()
        if st in seen:
            continue
        seen.add(st)
        bb, env = st
        blocks.add(bb)
        envd = dict(env)
        blk = body.bbs[bb]
        for s in blk['s']:
            pl = s[0]
            if len(pl) == 1 and pl[0] in phi:
                a = s[1]['a'][0]
                if 'k' in a:
                    envd[pl[0]] = a['k']['v']
                else:
                    src = op_place(a)[0]
                    if src in envd:
                        envd[pl[0]] = envd[src]
                    else:
                        envd.pop(pl[0], None)
        t = blk['t']
        succs = None
        if t['t'] == 'switch':
            l = op_local(t['on'])
            p = op_place(t['on'])
            if l is not None and p is not None and len(p) == 1 and l in envd:
                v = envd[l]
                tgt = None
                for val, b in t['tg']:
                    if val == v:
                        tgt = b
                if tgt is None:
                    tgt = t['else']
                succs = [tgt]
                if 'm' in t['on']:
                    envd.pop(l, None)
        if succs is None:
            succs = body.succ[bb]
        nenv = frozenset(envd.items())
        for s in succs:
            if (bb, s) in cut_edges or s in cut_blocks:
                continue
            ns = (s, nenv)
            if ns not in seen:
                if ns not in parents:
                    parents[ns] = st
                work.append(ns)
    if want_parents:
        return blocks, parents
    return blocks


def witness_path(body, parents, target_bb):
    for st in parents:
        if st[0] == target_bb:
            path = []
            cur = st
            while cur is not None:
                path.append(cur[0])
                cur = parents[cur]
            path.reverse()
            # compress
            out = []
            for b in path:
                if not out or out[-1] != b:
                    out.append(b)
            return out
    return None


# --------------------------------------------------------------------------
# value tracking: from a call's destination to the branch that tests it
# --------------------------------------------------------------------------
class Tracked:
    def __init__(self):
        self.success = set()   # edges (from,to) taken only when the value is a success
        self.failure = set()
        self.returned = False  # flows into the return place
        self.passed_to = []    # other calls that receive the value
        self.switches = []     # bbs of switches on it
        self.locals = {}


_BUILTIN_VARIANTS = {
    'core::ops::control_flow::ControlFlow': {0: 'Continue', 1: 'Break'},
    'core::result::Result': {0: 'Ok', 1: 'Err'},
    'core::option::Option': {0: 'None', 1: 'Some'},
}


def _variants_for_else(facts, adt, listed_vals):
    if facts is None:
        return [n for d, n in _BUILTIN_VARIANTS.get(adt, {}).items() if d not in listed_vals]
    a = facts.adts.get(adt)
    if not a:
        return None
    return [v['n'] for v in a['variants'] if v['d'] not in listed_vals]


def payload_locals(body, tags):
    """locals assigned from the success payload `(L as Continue|Ok|Some).0` of a tracked value"""
    out = []
    for i, j, s in body.stmts():
        pl, rv = s[0], s[1]
        if rv.get('op') != 'use' or len(pl) != 1:
            continue
        src = op_place(rv['a'][0])
        if src is None or src[0] not in tags or len(src) != 3:
            continue
        if tags[src[0]][0] != 'val':
            continue
        if src[1] in ('@Continue', '@Ok', '@Some') and isinstance(src[2], str) and src[2].startswith('.0:'):
            out.append(pl[0])
    return out


def track_result(facts, body, site, success_variants=None, start_local=None, bool_pos=True,
                 extra_adapters=(), inner=0):
    """inner=n: the guard is the value n payload-unwrappings inside the call's
    result (Result<bool> -> inner=1 tracks the bool)."""
    if inner > 0:
        outer = _track_result(facts, body, site, success_variants, start_local, bool_pos, extra_adapters)
        pls = payload_locals(body, outer.locals)
        tr = Tracked()
        sv = set(success_variants) if success_variants else SUCCESS_VARIANTS
        ptags = {}
        for i, j, s in body.stmts():
            pl, rv = s[0], s[1]
            if rv.get('op') == 'discr' and len(pl) == 1:
                src = rv['pl']
                if src[0] in outer.locals and outer.locals[src[0]][0] == 'val' and len(src) == 3 \
                        and src[1] in ('@Continue', '@Ok', '@Some') and isinstance(src[2], str) and src[2].startswith('.0:'):
                    ptags[pl[0]] = ('discr', rv['adt'], 1, 'val')
        if ptags and inner == 1:
            _collect_edges(facts, body, ptags, sv, bool_pos, tr)
        if inner == 1:
            for i, blk in enumerate(body.bbs):
                t = blk['t']
                if t['t'] == 'switch' and not blk.get('c'):
                    p = op_place(t['on'])
                    if p and p[0] in outer.locals and outer.locals[p[0]][0] == 'val' and len(p) == 3 \
                            and p[1] in ('@Continue', '@Ok', '@Some') and isinstance(p[2], str) and p[2].startswith('.0:'):
                        for v, b in t['tg']:
                            (tr.failure if v == 0 else tr.success).add((i, b))
                        if all(v == 0 for v, b in t['tg']):
                            tr.success.add((i, t['else']))
                        elif all(v != 0 for v, b in t['tg']):
                            tr.failure.add((i, t['else']))
        if not pls and not tr.success and not tr.failure:
            raise Unrecognised(f"{body.fn}: no success payload extracted from the result at bb{site.bb if site else '?'}")
        for l in pls:
            t2 = track_result(facts, body, None, success_variants, l, bool_pos, extra_adapters, inner - 1)
            tr.success |= t2.success
            tr.failure |= t2.failure
            tr.returned |= t2.returned
            tr.passed_to += t2.passed_to
            tr.switches += t2.switches
            tr.locals.update(t2.locals)
        return tr
    return _track_result(facts, body, site, success_variants, start_local, bool_pos, extra_adapters)


def _track_result(facts, body, site, success_variants=None, start_local=None, bool_pos=True,
                  extra_adapters=()):
    """Follow the value produced by call terminator `site` (facts.Term) to the
    switch(es) that test it.  Returns Tracked with success/failure edge sets.

    Tags: ('val', pol) the Result/Option/ControlFlow/bool itself (pol=+1: success
    means Ok/Some/Continue/true); ('fut',) an un-awaited future producing it;
    ('poll',) a Poll<val>; ('discr', adt, pol) its discriminant."""
    sv = set(success_variants) if success_variants else SUCCESS_VARIANTS
    tr = Tracked()
    tags = {}
    if start_local is None:
        d = site.d['d']
        if len(d) != 1:
            # result written into a projection (e.g. a struct field / _0): only handle bare locals
            if d[0] == 0:
                tr.returned = True
                return tr
            raise Unrecognised(f"call result stored to a projected place in {body.fn} bb{site.bb}")
        start_local = d[0]
    tags[start_local] = ('val', 1)
    if start_local == 0:
        tr.returned = True
    changed = True
    adapters = ADAPTERS_SAME | set(extra_adapters)
    while changed:
        changed = False

        def setv(l, tag):
            nonlocal changed
            if l not in tags:
                tags[l] = tag
                changed = True

        for i, blk in enumerate(body.bbs):
            if blk.get('c'):
                continue
            for s in blk['s']:
                pl, rv = s[0], s[1]
                o = rv.get('op')
                if o == 'use' or o == 'cast':
                    src = op_place(rv['a'][0])
                    if src is None or src[0] not in tags:
                        continue
                    tag = tags[src[0]]
                    projs = src[1:]
                    if not projs or all(p == '*' for p in projs):
                        if len(pl) == 1:
                            setv(pl[0], tag)
                            if pl[0] == 0:
                                tr.returned = True
                        elif pl[0] == 0:
                            tr.returned = True
                        else:
                            # stored into a field of something (e.g. `result = x` captured): treat as consumed
                            tr.passed_to.append(('store', i))
                    elif tag[0] == 'poll' and projs[0] == '@Ready' and len(projs) == 2:
                        if len(pl) == 1:
                            setv(pl[0], ('val', 1))
                    # payload extraction (Continue.0 / Ok.0 / Some.0) ends the tracking
                elif o == 'ref':
                    src = rv['pl']
                    if src[0] in tags and all(p == '*' for p in src[1:]) and len(pl) == 1:
                        setv(pl[0], tags[src[0]])
                elif o == 'discr':
                    src = rv['pl']
                    if src[0] in tags and all(p == '*' for p in src[1:]) and len(pl) == 1:
                        tag = tags[src[0]]
                        if tag[0] in ('val', 'poll'):
                            setv(pl[0], ('discr', rv['adt'], tag[1] if tag[0] == 'val' else 1, tag[0]))
                elif o == 'un' and rv.get('u') == 'Not':
                    src = op_place(rv['a'][0])
                    if src and src[0] in tags and len(src) == 1 and len(pl) == 1:
                        tag = tags[src[0]]
                        if tag[0] == 'val':
                            setv(pl[0], ('val', -tag[1]))
                elif o == 'agg':
                    for a in rv.get('a', ()):
                        src = op_place(a)
                        if src and len(src) == 1 and src[0] in tags:
                            tr.passed_to.append(('aggregate', i))
            t = blk['t']
            if t['t'] == 'call':
                args = t['a']
                if not args:
                    continue
                a0 = op_place(args[0])
                cn = callee_of(t)
                dest = t['d']
                # any arg carrying the tracked value?
                carried = [k for k, a in enumerate(args) if op_place(a) and op_place(a)[0] in tags
                           and all(p == '*' for p in op_place(a)[1:])]
                if not carried:
                    continue
                if a0 is None or a0[0] not in tags or 0 not in carried:
                    tr.passed_to.append((cn, i))
                    continue
                tag = tags[a0[0]]
                if len(dest) != 1:
                    if dest[0] == 0 and (cn in adapters or cn == 'core::ops::try_trait::FromResidual::from_residual'):
                        tr.returned = True
                    else:
                        tr.passed_to.append((cn, i))
                    continue
                dl = dest[0]
                if dl == 0 and (cn in adapters or cn in IS_POS or cn in IS_NEG or cn == TRY_BRANCH):
                    tr.returned = True
                if tag[0] == 'val':
                    if cn == TRY_BRANCH:
                        setv(dl, ('val', tag[1]))
                    elif cn in IS_POS:
                        setv(dl, ('val', tag[1]))
                    elif cn in IS_NEG:
                        setv(dl, ('val', -tag[1]))
                    elif cn in adapters:
                        setv(dl, ('val', tag[1]))
                        if dl == 0:
                            tr.returned = True
                    elif cn == INTO_FUTURE:
                        setv(dl, ('fut',))
                    elif cn in PIN_NEW:
                        setv(dl, tag)
                    elif cn == 'core::ops::try_trait::FromResidual::from_residual':
                        tr.returned = True
                    else:
                        tr.passed_to.append((cn, i))
                elif tag[0] == 'fut':
                    if cn in PIN_NEW or cn == INTO_FUTURE:
                        setv(dl, ('fut',))
                    elif cn == POLL:
                        setv(dl, ('poll',))
                    else:
                        tr.passed_to.append((cn, i))
                elif tag[0] == 'poll':
                    tr.passed_to.append((cn, i))
    tr.locals = tags
    _collect_edges(facts, body, tags, sv, bool_pos, tr)
    return tr


def _collect_edges(facts, body, tags, sv, bool_pos, tr):
    # edges
    for i, blk in enumerate(body.bbs):
        if blk.get('c'):
            continue
        t = blk['t']
        if t['t'] != 'switch':
            continue
        p = op_place(t['on'])
        if p is None or len(p) != 1 or p[0] not in tags:
            continue
        tag = tags[p[0]]
        if tag[0] == 'val':
            # a bool: value 0 -> false edge, else -> true edge
            ty = body.local_ty(p[0])
            if ty != 'bool':
                continue
            tr.switches.append(i)
            pol = tag[1] if bool_pos else -tag[1]
            for v, b in t['tg']:
                if v == 0:
                    (tr.failure if pol > 0 else tr.success).add((i, b))
                else:
                    (tr.success if pol > 0 else tr.failure).add((i, b))
            (tr.success if pol > 0 else tr.failure).add((i, t['else']))
        elif tag[0] == 'discr':
            _, adt, pol, src_kind = tag
            if src_kind == 'poll':
                continue
            tr.switches.append(i)
            listed = set()
            for v, b in t['tg']:
                listed.add(v)
                name = facts.variant_of_discr(adt, v) if facts is not None else _BUILTIN_VARIANTS.get(adt, {}).get(v)
                if name is None:
                    raise Unrecognised(f"unknown discriminant {v} of {adt} in {body.fn}")
                good = (name in sv)
                if pol < 0:
                    good = not good
                (tr.success if good else tr.failure).add((i, b))
            rest = _variants_for_else(facts, adt, listed)
            if rest:
                goods = [(n in sv) != (pol < 0) for n in rest]
                if all(goods):
                    tr.success.add((i, t['else']))
                elif not any(goods):
                    tr.failure.add((i, t['else']))
                else:
                    pass  # mixed else-arm: belongs to neither set
    both = tr.success & tr.failure
    if both:
        raise Unrecognised(f"success and failure edge coincide in {body.fn}: {both}")
    return tr


def guard_edges(facts, body, callee_names, success_variants=None, min_sites=1, bool_pos=True,
                pick=None):
    """Success edges of every call site of any of callee_names in body."""
    sites = body.calls(*callee_names)
    if pick:
        sites = [s for s in sites if pick(s)]
    if len(sites) < min_sites:
        raise AnchorLost(f"{body.fn}: expected >= {min_sites} call(s) of {callee_names}, found {len(sites)}")
    out = []
    for s in sites:
        tr = track_result(facts, body, s, success_variants=success_variants, bool_pos=bool_pos)
        if not tr.success:
            raise Unrecognised(
                f"{body.fn}: result of {callee_names[0]} at {body.where(s.bb)} reaches no recognised branch"
                f" (returned={tr.returned}, passed_to={tr.passed_to[:3]})")
        out.append((s, tr))
    return out


# --------------------------------------------------------------------------
# P2 success-edge cut
# --------------------------------------------------------------------------
class Obligation:
    def __init__(self, rule, fn, what, ok, detail, where='', key=None, path=None):
        self.rule = rule
        self.fn = fn
        self.what = what
        self.ok = ok
        self.detail = detail
        self.where = where
        self.key = key or f"{rule}|{fn}|{what}"
        self.path = path

    def to_json(self):
        d = {'rule': self.rule, 'fn': self.fn, 'what': self.what, 'verdict': 'holds' if self.ok else 'VIOLATED',
             'detail': self.detail, 'where': self.where, 'key': self.key}
        if self.path:
            d['cfg_path'] = self.path
        return d


def cut_by(facts, body, rule, action_desc, action_bbs, guard_desc, cut_edges, where=None, per_visit=False):
    """Obligation: every action block is unreachable from entry once cut_edges
    (the success edges of one guard) are removed - and, per_visit, also
    unreachable from the action's own successors (in a loop the guard must be
    re-established before every visit, not only before the first)."""
    if not action_bbs:
        raise AnchorLost(f"{rule}: no action site '{action_desc}' in {body.fn}")
    if not cut_edges:
        raise AnchorLost(f"{rule}: guard '{guard_desc}' has no edges in {body.fn}")
    blocks, parents = reach(body, (0,), cut_edges=cut_edges, want_parents=True)
    bad = sorted(set(action_bbs) & blocks)
    what = f"{action_desc} cut-by {guard_desc}"
    if bad:
        path = witness_path(body, parents, bad[0])
        return Obligation(rule, body.fn, what, False,
                          f"{action_desc} at {body.where(bad[0])} is reachable without passing the success edge of {guard_desc}",
                          where=body.where(bad[0]), path=[f"bb{b}@{body.where(b)}" for b in (path or [])][:40])
    if per_visit:
        for a in sorted(set(action_bbs)):
            starts = [s for s in body.succ[a] if (a, s) not in cut_edges]
            blocks2, parents2 = reach(body, starts, cut_edges=cut_edges, want_parents=True)
            again = [a] if a in blocks2 else []
            if again:
                path = witness_path(body, parents2, again[0])
                return Obligation(rule, body.fn, what, False,
                                  f"after {action_desc} at {body.where(a)}, it is reached again at {body.where(again[0])} (loop) without "
                                  f"passing the success edge of {guard_desc} again: the guard holds for the first visit only",
                                  where=body.where(again[0]), path=[f"bb{b}@{body.where(b)}" for b in (path or [])][:40])
    return Obligation(rule, body.fn, what, True,
                      f"{len(set(action_bbs))} site(s) unreachable from entry (and from themselves) without {sorted(cut_edges)[:4]}",
                      where=body.where(sorted(action_bbs)[0]))


def action_calls(body, *names, min_sites=1, pick=None):
    sites = body.calls(*names)
    if pick:
        sites = [s for s in sites if pick(s)]
    if len(sites) < min_sites:
        raise AnchorLost(f"{body.fn}: expected >= {min_sites} call(s) of {names}, found {len(sites)}")
    return [s.bb for s in sites]


def ok_return_bbs(body, variant='Ok', adt_suffix='result::Result'):
    """blocks that build the success value of the function result into _0 (or
    into a local later moved into _0)."""
    out = []
    for i, j, s in body.stmts():
        rv = s[1]
        if rv.get('op') == 'agg' and rv.get('var') == variant and rv.get('adt', '').endswith(adt_suffix):
            out.append(i)
    return out


def const_assign_bbs(body, local_pred, value):
    out = []
    for i, j, s in body.stmts():
        pl, rv = s[0], s[1]
        if len(pl) == 1 and local_pred(pl[0]) and rv.get('op') == 'use':
            k = rv['a'][0].get('k')
            if k is not None and k.get('v') == value:
                out.append(i)
    return out


def bool_return_bbs(body, value):
    """blocks assigning constant `value` (True/False) to the return place of a bool fn"""
    v = 1 if value else 0
    return const_assign_bbs(body, lambda l: l == 0, v)


# --------------------------------------------------------------------------
# backward slices (P9 / P10)
# --------------------------------------------------------------------------
PURE_THROUGH = {
    'core::ops::index::Index::index', 'core::ops::index::IndexMut::index_mut',
    'core::ops::try_trait::Try::branch', 'core::ops::try_trait::FromResidual::from_residual', 'fmt::Try::into_result',
    'core::option::Option::map', 'core::option::Option::and_then', 'core::option::Option::ok_or',
    'core::option::Option::ok_or_else', 'core::option::Option::copied', 'core::option::Option::cloned',
    'core::option::Option::expect', 'core::option::Option::unwrap_or_default',
    'core::result::Result::map_err', 'core::result::Result::map', 'core::result::Result::inspect_err',
    'core::result::Result::ok', 'core::result::Result::unwrap', 'core::result::Result::expect',
    'core::result::Result::and_then', 'core::convert::TryInto::try_into', 'core::convert::TryFrom::try_from',
    'core::future::into_future::IntoFuture::into_future', 'core::pin::Pin::new_unchecked', 'core::future::future::Future::poll',
    'core::mem::replace', 'core::mem::take',
    'core::ops::deref::Deref::deref', 'core::ops::deref::DerefMut::deref_mut', 'core::clone::Clone::clone',
    'core::convert::Into::into', 'core::convert::From::from', 'core::convert::AsRef::as_ref',
    'core::borrow::Borrow::borrow', 'core::option::Option::as_ref', 'core::option::Option::unwrap',
    'core::option::Option::as_mut', 'core::num::nonzero::NonZero::get', 'core::num::nonzero::NonZero::new',
}


def _mut_borrow_calls(body, local):
    """calls that receive (as first argument) a `&mut` derived from `local`
    (directly or through index_mut / deref_mut / as_mut_slice style adapters):
    they may store their other arguments into it."""
    cache = getattr(body, '_mbc', None)
    if cache is None:
        cache = body._mbc = {}
    if local in cache:
        return cache[local]
    refs = set()
    for i, j, s in body.stmts():
        pl, rv = s[0], s[1]
        if rv.get('op') == 'ref' and rv.get('mut') and rv['pl'][0] == local and len(pl) == 1 and all(x == '*' for x in rv['pl'][1:]) and local > body.argc:
            refs.add(pl[0])
    out = []
    if refs:
        changed = True
        while changed:
            changed = False
            for i, j, s in body.stmts():
                pl, rv = s[0], s[1]
                if len(pl) != 1 or pl[0] in refs:
                    continue
                src = None
                if rv.get('op') in ('use', 'cast') and rv.get('a'):     # cast: `&mut [u8; N]` unsized to `&mut [u8]`
                    src = op_place(rv['a'][0])
                elif rv.get('op') == 'ref':
                    src = rv['pl']
                if src and src[0] in refs:
                    refs.add(pl[0])
                    changed = True
            for i, blk in enumerate(body.bbs):
                t = blk['t']
                if t['t'] != 'call' or blk.get('c') or not t['a']:
                    continue
                a0 = op_place(t['a'][0])
                if a0 and a0[0] in refs:
                    cn = callee_of(t)
                    if cn.endswith('index_mut') or cn.endswith('deref_mut') or cn.endswith('as_mut_slice') or cn.endswith('as_mut') or cn.endswith('access_mut'):
                        if len(t['d']) == 1 and t['d'][0] not in refs:
                            refs.add(t['d'][0])
                            changed = True
        for i, blk in enumerate(body.bbs):
            t = blk['t']
            if t['t'] != 'call' or blk.get('c') or not t['a']:
                continue
            a0 = op_place(t['a'][0])
            if a0 and a0[0] in refs and len(t['a']) > 1:
                cn = callee_of(t)
                if not (cn.endswith('index_mut') or cn.endswith('deref_mut')):
                    out.append((i, t))
            elif any(op_place(a) and op_place(a)[0] in refs for a in t['a'][1:]):
                # an out-parameter in a later position (`self.current_tt_hash(&mut tt_hash)`): the call may fill it from its other arguments
                out.append((i, t))
    cache[local] = out
    if not hasattr(body, '_mbrefs'):
        body._mbrefs = {}
    body._mbrefs[local] = refs
    return out


def sources(body, operand_or_local, through=(), depth=60, _seen=None):
    """Backward slice: set of source descriptors the value may derive from.
    ('field', 'name:Adt'), ('arg', n), ('upvar', name), ('call', callee, bb),
    ('const', v), ('constp', path), ('fn', path)"""
    if _seen is None:
        _seen = set()
    out = set()
    through = set(through) | PURE_THROUGH

    def _fpath(pl):
        return tuple(x[1:].split(':')[0] for x in pl[1:] if isinstance(x, str) and x.startswith('.'))

    def from_place(pl, d):
        l = pl[0]
        for p in pl[1:]:
            if isinstance(p, str) and p.startswith('.'):
                f = p[1:]
                if f.endswith(':^'):
                    out.add(('upvar', f[:-2]))
                else:
                    out.add(('field', f))
            elif isinstance(p, str) and p.startswith('[_'):
                pass
        from_local(l, d, _fpath(pl))

    def from_operand(o, d):
        pl = op_place(o)
        if pl is not None:
            from_place(pl, d)
        else:
            k = o.get('k', {})
            if 'fn' in k:
                out.add(('fn', k['fn']))
            elif 'promoted' in k:
                prom = body.rec.get('promoted') or []
                idx = k['promoted']
                if idx < len(prom):
                    for it in prom[idx]:
                        if 'adt' in it:
                            from facts import np
                            out.add(('agg', np(it['adt']), it.get('var')))
                            if 'v' in it:
                                out.add(('const', it['v']))
                        elif 'v' in it:
                            out.add(('const', it['v']))
                        elif 'p' in it:
                            out.add(('constp', it['p']))
                else:
                    out.add(('const', None))
            elif 'p' in k:
                out.add(('constp', k['p']))
                if 'v' in k:
                    out.add(('const', k['v']))
            elif 'v' in k:
                out.add(('const', k['v']))
            else:
                out.add(('const', None))

    def from_local(l, d, rpath=()):
        if (l, rpath) in _seen or d <= 0:
            return
        _seen.add((l, rpath))
        if 1 <= l <= body.argc:
            out.add(('arg', l))
        for (bb, i, kind, payload) in body.defs.get(l, ()):
            if kind in ('passign', 'pcall') and rpath:
                wpath = _fpath(payload[0] if kind == 'passign' else payload['d'])
                n = min(len(wpath), len(rpath))
                if wpath[:n] != rpath[:n]:
                    continue   # a write to a different field of the same aggregate
            if kind in ('assign', 'passign'):
                rv = payload[1]
                o = rv.get('op')
                if o in ('ref', 'discr', 'rawptr'):
                    from_place(rv['pl'], d - 1)
                else:
                    for a in rv.get('a', ()):
                        from_operand(a, d - 1)
                    if o == 'agg' and 'clo' in rv:
                        out.add(('closure', rv['clo']))
                    if o == 'agg' and 'adt' in rv:
                        out.add(('agg', rv['adt'], rv.get('var')))
            elif kind in ('call', 'pcall'):
                cn = callee_of(payload)
                out.add(('call', cn, bb))
                if 'r' in payload:
                    out.add(('call', payload['r'], bb))
                if cn in through or payload.get('r') in through or cn.endswith(('>::bits', '>::from_bits_truncate', '>::from_bits', '>::from_bits_retain')) or cn.startswith('num_traits::cast::FromPrimitive::from_'):
                    for a in payload['a']:
                        from_operand(a, d - 1)
            elif kind == 'yield':
                out.add(('resume', bb))
        for (cbb, t) in _mut_borrow_calls(body, l):
            cn = callee_of(t)
            out.add(('mutcall', cn, cbb))
            if 'r' in t:
                out.add(('mutcall', t['r'], cbb))
            a0 = op_place(t['a'][0])
            for k, a in enumerate(t['a']):
                pa = op_place(a)
                if k == 0 and pa and pa[0] in getattr(body, '_mbrefs', {}).get(l, ()):
                    continue
                from_operand(a, d - 1)

    if isinstance(operand_or_local, int):
        from_local(operand_or_local, depth)
    else:
        from_operand(operand_or_local, depth)
    return out


def compare_sites(body, ops=('Eq', 'Ne', 'Lt', 'Le', 'Gt', 'Ge')):
    """all `bin <cmp>` statements: (bb, idx, op, lhs_operand, rhs_operand, dest_local)"""
    out = []
    for i, j, s in body.stmts():
        rv = s[1]
        if rv.get('op') == 'bin' and rv.get('b') in ops and len(s[0]) == 1:
            out.append((i, j, rv['b'], rv['a'][0], rv['a'][1], s[0][0]))
    return out


def bool_local_edges(body, local, facts=None):
    """(true_edges, false_edges) of the switches that test bool `local`
    (following moves / copies / Not)."""
    tags = {local: 1}
    changed = True
    while changed:
        changed = False
        for i, j, s in body.stmts():
            pl, rv = s[0], s[1]
            if len(pl) != 1 or pl[0] in tags:
                continue
            if rv.get('op') == 'use':
                src = op_place(rv['a'][0])
                if src and len(src) == 1 and src[0] in tags:
                    tags[pl[0]] = tags[src[0]]
                    changed = True
            elif rv.get('op') == 'un' and rv.get('u') == 'Not':
                src = op_place(rv['a'][0])
                if src and len(src) == 1 and src[0] in tags:
                    tags[pl[0]] = -tags[src[0]]
                    changed = True
    te, fe = set(), set()
    for i, blk in enumerate(body.bbs):
        t = blk['t']
        if t['t'] != 'switch' or blk.get('c'):
            continue
        p = op_place(t['on'])
        if p is None or len(p) != 1 or p[0] not in tags:
            continue
        pol = tags[p[0]]
        for v, b in t['tg']:
            if v == 0:
                (fe if pol > 0 else te).add((i, b))
            else:
                (te if pol > 0 else fe).add((i, b))
        (te if pol > 0 else fe).add((i, t['else']))
    return te, fe


def cmp_guard_edges(body, op, lhs_pred, rhs_pred, symmetric=True):
    """Edges taken when comparison `lhs op rhs` is TRUE, for every comparison in
    body whose operand slices satisfy the predicates (predicates get the set
    returned by sources()).  Returns list of (bb, true_edges, false_edges)."""
    res = []
    for (bb, j, o, a, b, dest) in compare_sites(body, ops=(op,)):
        sa, sb = sources(body, a), sources(body, b)
        if (lhs_pred(sa) and rhs_pred(sb)) or (symmetric and lhs_pred(sb) and rhs_pred(sa)):
            te, fe = bool_local_edges(body, dest)
            res.append((bb, te, fe))
    # `lhs op rhs` written the other way round (`rhs op' lhs`) is the same test with the same truth value
    mop = {'Lt': 'Gt', 'Gt': 'Lt', 'Le': 'Ge', 'Ge': 'Le', 'Eq': 'Eq', 'Ne': 'Ne'}.get(op)
    if mop and not (symmetric and mop == op):
        seen = {r[0] for r in res}
        for (bb, j, o, a, b, dest) in compare_sites(body, ops=(mop,)):
            if bb in seen and mop == op:
                continue
            sa, sb = sources(body, a), sources(body, b)
            if lhs_pred(sb) and rhs_pred(sa) and not (mop == op and lhs_pred(sa) and rhs_pred(sb)):
                te, fe = bool_local_edges(body, dest)
                res.append((bb, te, fe))
    return res


def resolve_place(body, pl, depth=6):
    """Expand a place whose base local is a single-definition reference/copy of
    another place: `_7 = &(*_1).state; (*_7)` -> [1, '*', '.state:..', '*']."""
    pl = list(pl)
    while depth > 0:
        depth -= 1
        base = pl[0]
        ds = body.defs.get(base, ())
        if len(ds) != 1 or ds[0][2] != 'assign' or base <= body.argc:
            break
        rv = ds[0][3][1]
        if rv.get('op') == 'ref':
            src = rv['pl']
        elif rv.get('op') == 'use' and op_place(rv['a'][0]):
            src = op_place(rv['a'][0])
        else:
            break
        pl = list(src) + pl[1:]
    return pl


def enum_local_edges(facts, body, local_pred, adt, variants):
    """Edges of switches on discr(X) for locals X satisfying local_pred of enum
    `adt`, taken when X is one of `variants`."""
    want = {facts.variant_discr(adt, v) for v in variants}
    edges = set()
    other = set()
    for i, blk in enumerate(body.bbs):
        if blk.get('c'):
            continue
        t = blk['t']
        if t['t'] != 'switch':
            continue
        p = op_place(t['on'])
        if p is None or len(p) != 1:
            continue
        # the switch operand must be a discriminant read of a matching local
        for (dbb, di, kind, payload) in body.defs.get(p[0], ()):
            if kind != 'assign':
                continue
            rv = payload[1]
            if rv.get('op') == 'discr' and rv.get('adt') == adt and (local_pred(rv['pl']) or local_pred(resolve_place(body, rv['pl']))):
                listed = set()
                for v, b in t['tg']:
                    listed.add(v)
                    (edges if v in want else other).add((i, b))
                rest = {v['d'] for v in facts.adt(adt)['variants']} - listed
                if rest and rest <= want:
                    edges.add((i, t['else']))
                elif rest & want:
                    pass  # the else arm mixes wanted and unwanted variants: it belongs to neither set
                else:
                    other.add((i, t['else']))
    return edges, other


# --------------------------------------------------------------------------
# P3 ordering / pairing
# --------------------------------------------------------------------------
def always_followed_by(body, from_bbs, then_bbs, exits=None):
    """Every normal path from the end of each block in from_bbs to a function
    return passes through one of then_bbs.  Returns offending from-blocks."""
    exits = set(exits if exits is not None else body.ret_blocks())
    bad = []
    then_bbs = set(then_bbs)
    for f in from_bbs:
        if f in then_bbs:
            continue
        starts = [s for s in body.succ[f]]
        r = reach(body, starts, cut_blocks=then_bbs)
        if r & exits:
            bad.append(f)
    return bad


def precedes(body, first_bbs, then_bbs):
    """Every path from entry to a block in then_bbs passes a block of first_bbs.
    Returns the then-blocks reachable without."""
    r = reach(body, (0,), cut_blocks=set(first_bbs))
    return sorted(set(then_bbs) & r)


def yields_between(body, from_bbs, to_bbs):
    """Yield blocks reachable from from_bbs without passing to_bbs."""
    to_bbs = set(to_bbs)
    starts = []
    for f in from_bbs:
        starts.extend(body.succ[f])
    r = reach(body, starts, cut_blocks=to_bbs)
    return sorted(b for b in r if body.bbs[b]['t']['t'] == 'yield')


# --------------------------------------------------------------------------
# call graph reachability (P4)
# --------------------------------------------------------------------------
def reachable_fns(facts, roots, depth=8, through_traits=True, stop=()):
    seen = {}
    work = deque((r, 0, None) for r in roots)
    stop = set(stop)
    while work:
        fn, d, parent = work.popleft()
        if fn in seen:
            continue
        seen[fn] = parent
        if d >= depth or fn in stop:
            continue
        b = facts.bodies.get(fn)
        if b is None:
            continue
        nxt = set(b.calls_summary) | set(b.clos_summary) | set(b.fnrefs)
        if through_traits:
            for c in list(nxt):
                nxt |= facts.trait_method_impls(c)
        # an async fn's body is its nested coroutine
        for n in nxt:
            if n not in seen:
                work.append((n, d + 1, fn))
    return seen


# --------------------------------------------------------------------------
# forward taint (P9): does a value influence a decision / the result?
# --------------------------------------------------------------------------
def forward_taint(body, seeds):
    """seeds: set of locals.  Returns (tainted locals, switch blocks whose operand
    is tainted, True if the return place is tainted, calls receiving taint)."""
    t = set(seeds)
    changed = True
    calls = []
    while changed:
        changed = False
        for i, blk in enumerate(body.bbs):
            if blk.get('c'):
                continue
            for s in blk['s']:
                pl, rv = s[0], s[1]
                if pl[0] in t:
                    continue
                ops = []
                if rv.get('op') in ('ref', 'discr', 'rawptr'):
                    ops.append(rv['pl'])
                for a in rv.get('a', ()):
                    p = op_place(a)
                    if p:
                        ops.append(p)
                if any(p[0] in t for p in ops):
                    t.add(pl[0])
                    changed = True
            tm = blk['t']
            if tm['t'] == 'call':
                if any(op_place(a) and op_place(a)[0] in t for a in tm['a']):
                    d = tm['d'][0]
                    if d not in t:
                        t.add(d)
                        changed = True
    sw = []
    for i, blk in enumerate(body.bbs):
        tm = blk['t']
        if tm['t'] == 'switch' and not blk.get('c'):
            p = op_place(tm['on'])
            if p and p[0] in t:
                sw.append(i)
        if tm['t'] == 'call' and not blk.get('c'):
            if any(op_place(a) and op_place(a)[0] in t for a in tm['a']):
                calls.append(i)
    return t, sw, (0 in t), calls


def field_read_locals(body, field):
    """locals assigned from a read of (a place through) the named field 'name:Adt'"""
    key = '.' + field
    out = set()
    for i, j, s in body.stmts():
        pl, rv = s[0], s[1]
        places = []
        if rv.get('op') in ('ref', 'discr', 'rawptr'):
            places.append(rv['pl'])
        for a in rv.get('a', ()):
            p = op_place(a)
            if p:
                places.append(p)
        for p in places:
            if any(x == key for x in p[1:] if isinstance(x, str)):
                out.add(pl[0])
    for i, blk in enumerate(body.bbs):
        tm = blk['t']
        if tm['t'] == 'call' and not blk.get('c'):
            for a in tm['a']:
                p = op_place(a)
                if p and any(x == key for x in p[1:] if isinstance(x, str)):
                    out.add(tm['d'][0])
        if tm['t'] == 'switch' and not blk.get('c'):
            p = op_place(tm['on'])
            if p and any(x == key for x in p[1:] if isinstance(x, str)):
                out.add(-1 - i)
    return out


def field_influences_result(body, field):
    """P9: the field is read and the value reaches a switch or the return value."""
    seeds = field_read_locals(body, field)
    if not seeds:
        return False, 'field is not read'
    direct = [s for s in seeds if s < 0]
    t, sw, ret, calls = forward_taint(body, {s for s in seeds if s >= 0})
    if direct or sw or ret:
        return True, f'read into {sorted(s for s in seeds if s >= 0)[:4]}, switches {sw[:4]}, returned={ret}'
    return False, 'field is read but the value reaches neither a branch nor the result'


def result_defs(body):
    """Definitions that flow (through plain moves) into the return place:
    list of (bb, kind, payload) with kind in const|call|agg|expr."""
    to_ret = {0}
    changed = True
    while changed:
        changed = False
        for i, j, s in body.stmts():
            pl, rv = s[0], s[1]
            if len(pl) == 1 and pl[0] in to_ret and rv.get('op') == 'use':
                src = op_place(rv['a'][0])
                if src and len(src) == 1 and src[0] not in to_ret:
                    to_ret.add(src[0])
                    changed = True
    out = []
    for l in to_ret:
        for (bb, idx, kind, payload) in body.defs.get(l, ()):
            if body.is_cleanup(bb):
                continue
            if kind == 'assign':
                rv = payload[1]
                if rv.get('op') == 'use':
                    a = rv['a'][0]
                    if 'k' in a:
                        out.append((bb, 'const', a['k'].get('v')))
                    elif op_place(a) and len(op_place(a)) == 1 and op_place(a)[0] in to_ret:
                        continue
                    else:
                        out.append((bb, 'expr', rv))
                elif rv.get('op') == 'agg':
                    out.append((bb, 'agg', rv))
                else:
                    out.append((bb, 'expr', rv))
            elif kind == 'call':
                out.append((bb, 'call', payload))
            else:
                out.append((bb, 'expr', payload))
    return out


def nonfalse_result_bbs(body):
    """blocks where a bool function's result may become something other than constant false"""
    return sorted({bb for (bb, kind, p) in result_defs(body) if not (kind == 'const' and p == 0)})
