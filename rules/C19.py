"""C19 - A certificate chain is accepted only if every rule was checked ("accepted => checked"; completeness not decided)."""
from common import (equality_tests, variant_bbs, mentions, closure_in, ok_return_bbs, call_bbs, named_local, src_calls, src_fields, src_consts, bodies_of, result_used)
from facts import AnchorLost, op_place
import prims

EXPLANATION = """
Static rules over cert.rs (CertVerifier), failsafe.rs and sc/case/casep.rs. "valid => accepted" is not decided.
(a) each step enforces every rule: in CertVerifier::add_cert the construction of the next verifier is unreachable once any of these
success edges is deleted: is_authority == true, PublicKey::verify == true, verify_usage ok; the not-after test (`not_after == 0` or
`now <= not_after`) and the not-before test (no reliable time, or `now >= not_before`) each cut it; the signature is verified over the
certificate's own ASN.1 encoding with the parent's public key; the next verifier's depth is exactly self.depth.saturating_add(1) on every
path (a position counter, not a property of the certificate type); in verify_usage Ok is cut by: no unknown critical extension; on the NOC
arm depth == 0, cA == false, digitalSignature, both extended key usages; on the ICAC/RCAC arm cA == true, keyCertSign and the path-length
comparison (depth - 1 <= pathLen);
(b) a verifier can only be obtained by verifying: CertVerifier aggregates are built only in CertVerifier::new (called only from
CertRef::verify_chain_start) and add_cert; the depth field is never written elsewhere; finalise verifies the last certificate against
itself (add_cert(self.cert));
(c) every chain user finishes the chain: in each function that calls verify_chain_start the Ok result is cut by finalise success
(CaseP::validate_certs, FailSafe::validate_certs, FailSafe::add_trusted_root_cert);
(d) trust anchor / fabric binding and (e) credential installation are decided under C01-b and C08-c.
"""
CLAUSES = ['a: every chain step checks authority link, signature, validity window and usage policy (critical-extension probe per element)', 'b: verifier values only arise from verification', 'c: every chain user calls finalise before accepting',
           'd: AddNOC refuses an existing (fabric id, root public key); CASE: the fabric-id comparison is mandatory; UpdateNOC compares the fabric id before the update', 'e: extended key usage: every required purpose looked up one by one']
NOT_DECIDED = ['completeness: no valid chain is refused', 'field-value semantics of each extension parser', 'issuer/subject DN linking beyond the key-id link']
MIN_OBLIGATIONS = {'q': 28, 'd': 28, 'r': 28}

CV = 'cert::CertVerifier'
KU = 'cert::x509::key_usage_tlv::'


def _bit_edges(F, body, const_suffix):
    """edges on which `(key_usage & CONST) == 0` is FALSE"""
    e = set()
    for (bb, j, op, a, b, d) in prims.compare_sites(body, ops=('Eq', 'Ne')):
        s = prims.sources(body, a) | prims.sources(body, b)
        if any(x[0] == 'constp' and x[1].endswith(const_suffix) for x in s) and 0 in src_consts(s):
            te, fe = prims.bool_local_edges(body, d)
            e |= fe if op == 'Eq' else te
    return e


def check(R):
    F = R.facts
    # ---- a --------------------------------------------------------------------
    with R.clause('a'):
        chain_step_rules(R, with_eku=False)

    # ---- b --------------------------------------------------------------------
    with R.clause('b'):
        R.constructors_confined('P1', CV, {CV + '::new', CV + '::add_cert'}, min_sites=2)
        R.callers_confined('P1', CV + '::new', {'cert::CertRef::verify_chain_start'})
        R.expect('P1', CV, 'CertVerifier.depth is never assigned after construction', not F.writers.get('depth:' + CV), 'no field write', f'{sorted(F.writers.get("depth:" + CV, []))}')
        nw = R.body(CV + '::new')
        for i, j, s in nw.aggregates(CV):
            fields = dict(zip(s[1].get('fields', ()), s[1]['a']))
            R.expect('P6', nw.fn, 'a fresh verifier starts at depth 0', fields.get('depth', {}).get('k', {}).get('v') == 0, 'depth: 0', str(fields.get('depth')))
        a = F.adt(CV)
        R.expect('P5', CV, 'CertVerifier fields are private (a verifier cannot be forged downstream)', all(f['vis'] != 'pub' for f in a['variants'][0]['fields']), 'all private', 'a public field')
        fi = R.body(CV + '::finalise')
        t = fi.calls(CV + '::add_cert')
        R.floor('add_cert in finalise', len(t), 1)
        s = prims.sources(fi, t[0].d['a'][1])
        R.expect('P10', fi.fn, 'finalise verifies the last certificate against itself', mentions(s, 'cert') and ('arg', 1) in s, 'add_cert(self.cert)', f'{sorted(map(str, s))[:4]}')
        R.cut('P2', fi, 'return Ok', ok_return_bbs(fi), 'self-verification ok', lambda: R.call_guard(fi, CV + '::add_cert'))

    # ---- c --------------------------------------------------------------------
    with R.clause('c'):
        users = sorted(F.callers_of('cert::CertRef::verify_chain_start'))
        R.floor('users of verify_chain_start', len(users), 3)
        for u in users:
            b = F.body(u)
            oks = ok_return_bbs(b)
            fin = b.calls(CV + '::finalise')
            if not fin:
                R.fail('P2', b.fn, 'the chain is finished with finalise()', 'verify_chain_start without finalise: the last certificate is never checked against a trust anchor', f'{b.file}:{b.line}')
                continue
            rd = prims.result_defs(b)
            tail = any(k == 'call' and p.get('f') == CV + '::finalise' for bb, k, p in rd)
            if tail and not oks:
                R.ok('P2', b.fn, 'the function returns the verdict of finalise()', 'tail call')
            else:
                R.cut('P2', b, 'accept the chain (return Ok)', oks, 'finalise ok', lambda b=b: R.call_guard(b, CV + '::finalise'))
            for t in b.calls(CV + '::add_cert'):
                result_used(R, 'P8', b, (CV + '::add_cert',))
                break
        fv = R.body('failsafe::FailSafe::validate_certs')
        ss = fv.calls('cert::CertRef::is_self_signed')
        R.expect('P2', fv.fn, 'a self-signed ICAC is refused before it is used as an authority', len(ss) >= 1 and not prims.precedes(fv, [ss[0].bb], [t.bb for t in fv.calls(CV + '::add_cert')][:1]), 'is_self_signed precedes add_cert(icac)', 'missing')


    # ---- d --------------------------------------------------------------------
    with R.clause('d'):
        dup_fabric_rule(R)
        # "the leaf carries ... the fabric identifier of the fabric it is used for": in CaseP::validate_certs every path to Ok passes the
        # equality of the fabric's id with an id that get_fabric_id() actually returned (a leaf without a fabric id cannot skip the test)
        vc = R.body('sc::case::casep::CaseP::validate_certs')
        oks_vc = ok_return_bbs(vc)
        R.floor('Ok returns of CaseP::validate_certs', len(oks_vc), 1)

        def fid_eq():
            e = set()
            for (bb, neg, sa_, sb_, te, fe) in equality_tests(F, vc):
                if 'fabric::Fabric::fabric_id' in src_calls(sa_ | sb_) and 'cert::CertRef::get_fabric_id' in src_calls(sa_ | sb_):
                    e |= te
            if not e:
                from facts import GuardMissing
                raise GuardMissing(f'{vc.fn}: no comparison of Fabric::fabric_id() with CertRef::get_fabric_id()')
            return e
        R.cut('P2', vc, 'accept the chain (return Ok)', oks_vc, 'the fabric id the certificate carries equals the fabric\'s (mandatory: no path around the comparison)', fid_eq)
        update_noc_fabric_rule(R)

    # ---- e --------------------------------------------------------------------
    with R.clause('e'):
        eku_rule(R)


def eku_rule(R):
    F = R.facts
    # "the leaf carries the prescribed key usages": ext_key_usage_has_all answers true only after it has gone through EVERY required
    # purpose, and moves on to the next required purpose only after an equality match for the current one
    b = R.body('cert::CertRef::ext_key_usage_has_all')
    its = [t for t in b.calls('core::iter::traits::collect::IntoIterator::into_iter', 'core::slice::<impl [T]>::iter')
           if ('arg', 2) in prims.sources(b, t.d['a'][0])]
    alls = [t for t in b.calls('core::iter::traits::iterator::Iterator::all') if any(x[0] == 'arg' and x[1] == 2 for x in prims.sources(b, t.d['a'][0], through={'core::slice::<impl [T]>::iter', 'core::iter::traits::collect::IntoIterator::into_iter'}))]
    trues = [bb for bb, k, pl in prims.result_defs(b) if k == 'agg' and pl.get('var') == 'Ok' and pl['a'][0].get('k', {}).get('v') == 1]
    if alls:
        R.cut('P2', b, 'answer true', trues or ok_return_bbs(b), 'all(required) holds', lambda: prims.track_result(F, b, alls[0]).success)
    elif not its:
        R.fail('P2', b.fn, 'answer true cut-by every required purpose was looked up in the certificate\'s list',
               'the function no longer iterates over `required`: the purposes are not looked up one by one (a membership count lets a repeated purpose stand in for a missing one)', f'{b.file}:{b.line}')
    else:
        nx = [t for t in b.calls('core::iter::traits::iterator::Iterator::next')
              if any(x[0] == 'call' and x[2] == its[0].bb for x in prims.sources(b, t.d['a'][0]))]
        R.floor('next() on the iterator over `required`', len(nx), 1)
        tr = prims.track_result(F, b, nx[0])
        R.floor('Ok(true) results of ext_key_usage_has_all', len(trues), 1)
        R.cut('P2', b, 'answer true', trues, 'the iteration over `required` is exhausted (every required purpose was looked up)', tr.failure)
        eqt = set()
        for (bb, neg, sa_, sb_, te, fe) in equality_tests(F, b):
            eqt |= te
        for (frm, to) in sorted(tr.success):
            R.cut_from('P2', b, to, 'move on to the next required purpose', [nx[0].bb], 'the current purpose matched an entry of the list (==)', eqt)


def chain_step_rules(R, with_eku=True):
    """every chain step (CertVerifier::add_cert / verify_usage) checks authority link, signature, validity window, usage policy and path length"""
    F = R.facts
    ac = R.body(CV + '::add_cert')
    nxt = [i for i, j, s in ac.aggregates(CV)]
    R.floor('construction of the next CertVerifier', len(nxt), 1)
    R.cut('P2', ac, 'step to the parent certificate (construct the next verifier)', nxt, 'is_authority(parent) == true', lambda: R.call_guard(ac, 'cert::CertRef::is_authority', inner=1))
    R.cut('P2', ac, 'step to the parent certificate (construct the next verifier)', nxt, 'signature verifies', lambda: R.call_guard(ac, 'crypto::PublicKey::verify', inner=1))
    R.cut('P2', ac, 'step to the parent certificate (construct the next verifier)', nxt, 'verify_usage ok', lambda: R.call_guard(ac, CV + '::verify_usage'))

    def notafter():
        e = set()
        for bb, te, fe in prims.cmp_guard_edges(ac, 'Gt', lambda s: 'cert::CertRef::not_after' in src_calls(s), lambda s: 0 in src_consts(s), symmetric=False):
            e |= fe
        for bb, te, fe in prims.cmp_guard_edges(ac, 'Gt', lambda s: any(c.endswith('::any_secs') for c in src_calls(s)), lambda s: 'cert::CertRef::not_after' in src_calls(s), symmetric=False):
            e |= fe
        return e
    R.cut('P2', ac, 'step to the parent certificate (construct the next verifier)', nxt, 'not expired (not_after == 0 or now <= not_after)', notafter)

    def notbefore():
        e = set()
        for t in ac.calls():
            if t.d.get('f', '').endswith('::reliable_secs'):
                e |= prims.track_result(F, ac, t).failure
        for bb, te, fe in prims.cmp_guard_edges(ac, 'Lt', lambda s: any(c.endswith('::reliable_secs') for c in src_calls(s)) or True, lambda s: 'cert::CertRef::not_before' in src_calls(s), symmetric=False):
            e |= fe
        return e
    R.cut('P2', ac, 'step to the parent certificate (construct the next verifier)', nxt, 'already valid (no reliable time, or now >= not_before)', notbefore)
    R.expect('P9', ac.fn, 'both validity bounds are read', 'cert::CertRef::not_before' in ac.calls_summary and 'cert::CertRef::not_after' in ac.calls_summary, 'not_before(), not_after()', 'a bound is not read')
    ver = ac.calls('crypto::PublicKey::verify')
    R.floor('verify in add_cert', len(ver), 1)
    ks = prims.sources(ac, ver[0].d['a'][0], through={'crypto::Crypto::pub_key', 'cert::CertRef::pubkey'})
    ms = prims.sources(ac, ver[0].d['a'][1])
    ss = prims.sources(ac, ver[0].d['a'][2], through={'cert::CertRef::signature'})
    R.expect('P10', ac.fn, 'the signature is checked with the parent\'s public key', 'cert::CertRef::pubkey' in src_calls(ks) and ('arg', 2) in ks, 'parent.pubkey()', f'{sorted(map(str, ks))[:5]}')
    R.expect('P10', ac.fn, 'the signed data is this certificate\'s own ASN.1 encoding', 'cert::CertRef::as_asn1' in src_calls(ms) or any(c.endswith('Index::index') for c in src_calls(ms)), 'self.cert.as_asn1(buf)', f'{sorted(map(str, ms))[:5]}')
    R.expect('P10', ac.fn, 'the signature checked is this certificate\'s own', 'cert::CertRef::signature' in src_calls(ss), 'self.cert.signature()', f'{sorted(map(str, ss))[:5]}')
    # depth
    for i, j, s in ac.aggregates(CV):
        fields = dict(zip(s[1].get('fields', ()), s[1]['a']))
        dp = fields.get('depth')
        okd = False
        if dp is not None:
            p = op_place(dp)
            if p and len(p) == 1:
                ds = [d for d in ac.defs.get(p[0], ()) if not ac.is_cleanup(d[0])]
                okd = len(ds) == 1 and ds[0][2] == 'call' and ds[0][3].get('f', '').endswith('::saturating_add') and ds[0][3]['a'][1].get('k', {}).get('v') == 1 \
                    and mentions(prims.sources(ac, ds[0][3]['a'][0]), 'depth')
        R.expect('P10', ac.fn, 'the next verifier\'s depth is self.depth + 1 on every path', okd, 'depth: self.depth.saturating_add(1)',
                 'the depth handed to the next step is not unconditionally self.depth + 1: position-dependent rules (a NOC only as leaf, path length) can be bypassed', ac.where(i, j))
        pc = fields.get('cert')
        R.expect('P10', ac.fn, 'the next verifier is positioned at the parent', pc is not None and ('arg', 2) in prims.sources(ac, pc), 'cert: parent', 'not the parent', ac.where(i, j))
    vu = R.body(CV + '::verify_usage')
    oks = ok_return_bbs(vu)
    R.floor('Ok return of verify_usage', len(oks), 1)
    R.cut('P2', vu, 'accept the usage policy', oks, 'no unknown critical extension', lambda: _fail(R, vu, 'cert::CertRef::has_critical_future_extension', inner=1))
    every_extension_rule(R)
    if with_eku:
        eku_rule(R)
    ct = named_local(vu, 'cert_type')
    noc_edges, _ = prims.enum_local_edges(F, vu, lambda pl: pl[0] in ct and len(pl) == 1, 'cert::MatterCertType', ['Noc'])
    ca_edges, _ = prims.enum_local_edges(F, vu, lambda pl: pl[0] in ct and len(pl) == 1, 'cert::MatterCertType', ['Icac', 'Rcac'])
    R.expect('P2', vu.fn, 'the policy distinguishes leaf and authority certificates', bool(noc_edges) and bool(ca_edges), f'{sorted(noc_edges)} / {sorted(ca_edges)}', 'no match on cert_type')
    isca = named_local(vu, 'is_ca')
    ca_t, ca_f = set(), set()
    for l in isca:
        t, f = prims.bool_local_edges(vu, l)
        ca_t |= t
        ca_f |= f
    for (frm, to) in sorted(noc_edges):
        R.cut_from('P2', vu, to, 'accept a NOC', oks, 'it is the chain leaf (depth == 0)',
                   lambda: _cmp(vu, 'Ne', lambda s: mentions(s, 'depth'), lambda s: 0 in src_consts(s), 'f') | _cmp(vu, 'Eq', lambda s: mentions(s, 'depth'), lambda s: 0 in src_consts(s), 't'))
        R.cut_from('P2', vu, to, 'accept a NOC', oks, 'cA == false', ca_f)
        R.cut_from('P2', vu, to, 'accept a NOC', oks, 'KeyUsage has digitalSignature', lambda: _bit_edges(F, vu, 'DIGITAL_SIGNATURE'))
        R.cut_from('P2', vu, to, 'accept a NOC', oks, 'ExtendedKeyUsage has serverAuth and clientAuth', lambda: R.call_guard(vu, 'cert::CertRef::ext_key_usage_has_all', inner=1))
    for (frm, to) in sorted(ca_edges):
        R.cut_from('P2', vu, to, 'accept an ICAC / RCAC', oks, 'cA == true', ca_t)
        R.cut_from('P2', vu, to, 'accept an ICAC / RCAC', oks, 'KeyUsage has keyCertSign', lambda: _bit_edges(F, vu, 'KEY_CERT_SIGN'))
    # the comparison of the chain position (self.depth, minus the leaf) with the certificate's pathLenConstraint (payload of
    # basic_constraints()); both travel through one tuple pattern, so the sides are told apart by shape: `<..> - 1` on the left
    import p7
    both = lambda s_: any(f == 'depth:' + CV for f in src_fields(s_)) or 'cert::CertRef::basic_constraints' in src_calls(s_)
    pl_cmp = [c for c in prims.compare_sites(vu, ops=('Gt', 'Lt', 'Ge', 'Le'))
              if both(prims.sources(vu, c[3])) and both(prims.sources(vu, c[4])) and 'basic_constraints' in ' '.join(src_calls(prims.sources(vu, c[3]) | prims.sources(vu, c[4])))
              and (p7.expr_key(vu, c[3]).startswith('Sub(') or p7.expr_key(vu, c[4]).startswith('Sub('))]
    okpl = len(pl_cmp) == 1 and pl_cmp[0][2] == 'Gt' and p7.expr_key(vu, pl_cmp[0][3]).startswith('Sub(') and p7.expr_key(vu, pl_cmp[0][3]).rstrip('.0').endswith(',1)')
    R.expect('P10', vu.fn, 'path length: refuse when depth - 1 > pathLenConstraint', okpl, 'depth - 1 > max_intermediates', f'{[c[2] for c in pl_cmp]}')
    if pl_cmp:
        te, fe = prims.bool_local_edges(vu, pl_cmp[0][5])
        for (frm, to) in sorted(ca_edges):
            r = prims.reach(vu, (to,), cut_edges=fe)
            R.expect('P2', vu.fn, 'exceeding the path length never reaches Ok', not (set(oks) & prims.reach(vu, [e[1] for e in te])) , 'true edge -> Err', 'the exceeded-path-length edge reaches Ok')
    R.expect('P6', KU, 'key-usage bit constants are distinct single bits', len({F.const_val(KU + n) for n in ('DIGITAL_SIGNATURE', 'KEY_CERT_SIGN')}) == 2, 'ok', 'same value')
    result_used(R, 'P8', ac, ('cert::CertRef::is_authority',))
    result_used(R, 'P8', ac, ('crypto::PublicKey::verify',))

def update_noc_fabric_rule(R):
    """UpdateNOC installs the new leaf into an existing fabric only after it compared the leaf's fabric id with THAT fabric's id: the
    comparison guards the installation (Fabrics::update overwrites the fabric's id from the very NOC, so a later test is a tautology)."""
    F = R.facts
    un = R.body('failsafe::FailSafe::update_noc')
    inst = call_bbs(un, 'fabric::Fabrics::update')

    def fid_eq():
        e = set()
        for (bb, neg, sa_, sb_, te, fe) in equality_tests(F, un):
            if 'fabric::Fabric::fabric_id' in src_calls(sa_ | sb_) and 'cert::CertRef::get_fabric_id' in src_calls(sa_ | sb_):
                e |= te
        if not e:
            from facts import GuardMissing
            raise GuardMissing(f'{un.fn}: no comparison of the NOC fabric id with the id of the fabric being updated before it is updated')
        return e
    R.cut('P2', un, 'install the new NOC (Fabrics::update)', inst, 'the NOC carries the fabric id of the fabric being updated (compared before the update)', fid_eq)


def every_extension_rule(R):
    """"no unknown critical extension": the scan for a critical future extension looks at EVERY extension element - the DER probe runs
    once per element of the iteration (inside the loop over the extensions, or in a closure handed to an iterator adaptor), not once on
    whichever single element a search returned."""
    F = R.facts
    b = R.body('cert::CertRef::has_critical_future_extension')
    PROBE = 'cert::der_blob_has_critical_extension'
    sites = [(b, t) for t in b.calls(PROBE)] + [(nb, t) for nb in F.nested(b.fn) for t in nb.calls(PROBE)]
    R.floor('calls of der_blob_has_critical_extension under has_critical_future_extension', len(sites), 1)
    for body_, t in sites:
        if body_ is not b:
            R.ok('P3', b.fn, 'the critical-flag probe runs per extension element', f'in closure {body_.fn.split("::")[-1]} (called per element by the iterator adaptor)', body_.where(t.bb))
            continue
        nexts = [x.bb for x in b.calls() if any(n.endswith('::next') or n.endswith('::try_next') for n in x.callee_names())]
        fwd = prims.reach(b, b.succ[t.bb])
        in_loop = t.bb in fwd and any(n in fwd for n in nexts)
        R.expect('P3', b.fn, 'the critical-flag probe runs per extension element', in_loop, 'inside the loop over extensions()',
                 'der_blob_has_critical_extension is called once, outside any iteration: only the element a search stopped at is probed, a critical extension '
                 'in any other future-extensions element is accepted', b.where(t.bb))


def dup_fabric_rule(R):
    """AddNOC refuses a fabric that exists already: some equality test on (fabric id) and one on the ROOT PUBLIC KEYS - the staged root's
    against the one decoded from each existing fabric's root certificate - guard the NocFabricConflict refusal."""
    F = R.facts
    an = R.body('failsafe::FailSafe::add_noc')
    bodies = [an] + [b for b in F.nested(an.fn)]
    thr = {'cert::CertRef::new', 'tlv::read::TLVElement::new', 'cert::CertRef::pubkey'}
    idt, keyt, other = [], [], []
    for b in bodies:
        for (bb, neg, sa_, sb_, te, fe) in equality_tests(F, b, through=thr):
            ca, cb = src_calls(sa_), src_calls(sb_)
            if 'fabric::Fabric::fabric_id' in ca | cb:
                idt.append((b, bb))
            if 'fabric::Fabric::root_ca' in ca | cb:
                side_f, side_o, so = (ca, cb, sb_) if 'fabric::Fabric::root_ca' in ca else (cb, ca, sa_)
                if 'cert::CertRef::pubkey' in side_f and ('cert::CertRef::pubkey' in side_o or any(x[0] == 'upvar' and 'pubkey' in x[1] for x in so)):
                    keyt.append((b, bb))
                else:
                    other.append((b, bb))
    R.expect('P2', an.fn, 'AddNOC compares the NOC fabric id with every existing fabric\'s id', len(idt) >= 1 and any(c_.endswith('Fabrics::iter') for c_ in an.calls_summary),
             f'{len(idt)} fabric-id test(s) over Fabrics::iter()', 'duplicate-fabric scan missing')
    R.expect('P10', an.fn, 'the duplicate-fabric test compares root PUBLIC KEYS (decoded from the staged and from the stored root certificate)', len(keyt) >= 1 and not other,
             f'{len(keyt)} test(s): CertRef::pubkey(staged root) == CertRef::pubkey(fabric.root_ca())',
             'the stored root certificate is compared as something other than its public key' + (f' at {other[0][0].where(other[0][1])}' if other else ' (no public-key comparison found)') +
             ': a re-issued root certificate for the same key passes the duplicate test and a second entry for an existing fabric is installed',
             other[0][0].where(other[0][1]) if other else f'{an.file}:{an.line}')
    confl = variant_bbs(an, 'error::ErrorCode', 'NocFabricConflict') + [x for b in bodies[1:] for x in variant_bbs(b, 'error::ErrorCode', 'NocFabricConflict')]
    R.expect('P2', an.fn, 'a match is refused with NocFabricConflict', len(confl) >= 1, 'Err(NocFabricConflict)', 'no NocFabricConflict refusal left')


def _fail(R, body, callee, inner=0):
    e = set()
    ts = body.calls(callee)
    if not ts:
        from facts import GuardMissing
        raise GuardMissing(f'{body.fn}: no call of {callee}')
    for t in ts:
        e |= prims.track_result(R.facts, body, t, inner=inner).failure
    return e


def _cmp(body, op, lp, rp, which):
    e = set()
    for bb, te, fe in prims.cmp_guard_edges(body, op, lp, rp):
        e |= te if which == 't' else fe
    return e


def _locs(body, operand):
    out = set()
    p = op_place(operand)
    if not p:
        return out
    work = [p[0]]
    while work:
        l = work.pop()
        if l in out:
            continue
        out.add(l)
        for (bb, i, kind, payload) in body.defs.get(l, ()):
            if kind == 'assign' and payload[1].get('op') in ('use', 'cast'):
                q = op_place(payload[1]['a'][0])
                if q:
                    work.append(q[0])
    return out
