"""C14 - A chunked answer carries the complete result exactly once (structural clauses)."""
from common import (mentions, closure_in, async_body, closure_arg_sites, ok_return_bbs, call_bbs, named_local, src_calls,
                    src_fields, src_consts, bodies_of, result_used)
from facts import AnchorLost, op_place
import prims

EXPLANATION = """
Static structural rules over im.rs (ReportDataResponder) and im/invoker.rs; completeness / exactly-once of the chunk contents and
the size arithmetic for arbitrary values are not decided.
(a) the trailer always fits: start_reply shrinks the buffer by the same constant (LONG_READS_TLV_RESERVE_SIZE) that end_reply expands
it by, and the maximum over all acyclic paths of end_reply of the bytes written (per-call cost table of the TLV writer: end_container
1, context-tagged bool 2, context-tagged u8 3) is <= that constant - a bounded write decided without running it;
(b) only the last message ends the interaction: in end_reply MoreChunkedMsgs = true is written exactly on the Chunking* arms and
SuppressResponse only on the Done arm; in send, on both Chunking* arms the peer's status response is awaited before start_reply re-opens
the buffer, and start_reply precedes re-opening the array;
(c) rewind on overflow: in HandlerInvoker::process_{read,write,invoke} and in send_array_items, from the error edge of the handler call
every path passes WriteBuf::rewind_to with the position taken by get_tail() before the call; in report_attributes the NoSpace arm
sends the chunk and retries the same item (the item iterator is not advanced before process_read runs again);
(d) list streaming: in send_array_items the request's list_index field (None -> 0 -> +1) is rewritten inside the loop only over the Ok edge of
the item read, so a payload that did not fit is retried in the next chunk; (e) every IM buffer a report is built in is resized to a constant
not above MAX_EXCHANGE_TX_BUF_SIZE (a chunk that one exchange message cannot carry is never delivered).
"""
CLAUSES = ['a: trailer byte bound <= reserve (tracked reserve: set from the shrink constant, released within what is left); array framing of the final message is written into released reserve', 'b: only the last chunk ends the interaction', 'c: rewind on overflow, retry the same item; the event scan stops at the first event that does not fit', 'd: list index discipline', 'e: report buffers sized to one exchange message', 'f: a subscription report covers exactly the events it commits']
NOT_DECIDED = ['concatenation of chunks equals the one-shot expansion', 'element boundaries of handler-produced lists', 'size arithmetic for arbitrary values']
MIN_OBLIGATIONS = {'q': 20, 'd': 20, 'r': 20}

RD = 'im::ReportDataResponder'
WB = 'utils::storage::writebuf::WriteBuf'
TAGS = 'im::encoding::attr::ReportDataRespTag'
COST = {'end_container': 1, 'bool': 2, 'u8': 3}


def _max_path_cost(body, cost_of):
    import functools
    import sys
    sys.setrecursionlimit(10000)
    onstack = set()

    @functools.lru_cache(maxsize=None)
    def go(bb):
        if bb in onstack:
            raise AnchorLost(f'{body.fn}: cycle in a function expected to be loop-free')
        onstack.add(bb)
        c = cost_of(bb)
        best = 0
        for s in body.succ[bb]:
            if (bb, s) in prims.infeasible_edges(body):
                continue
            best = max(best, go(s))
        onstack.discard(bb)
        return c + best
    return go(0)


def _tag_value(F, body, operand):
    s = prims.sources(body, operand)
    return {x[1] for x in s if x[0] == 'const' and x[1] is not None} | {F.variant_discr(x[1], x[2]) for x in s if x[0] == 'agg' and x[1] == TAGS and x[2]}


def check(R):
    F = R.facts
    # ---- a --------------------------------------------------------------------
    with R.clause('a'):
        sr, er = R.body(RD + '::start_reply'), R.body(RD + '::end_reply')
        sh, exn = sr.calls(WB + '::shrink'), er.calls(WB + '::expand')
        R.floor('shrink in start_reply', len(sh), 1)
        R.floor('expand in end_reply', len(exn), 1)
        k = sh[0].d['a'][1].get('k', {})
        res, Rv = k.get('p'), k.get('v')
        if res is None or Rv is None:
            raise AnchorLost('the reserve passed to shrink() is not a named constant')
        s1 = {x[1] for x in prims.sources(sr, sh[0].d['a'][1]) if x[0] == 'constp'}
        s2 = {x[1] for x in prims.sources(er, exn[0].d['a'][1]) if x[0] == 'constp'}
        k2 = exn[0].d['a'][1].get('k', {})
        fld = 'reserved:' + RD
        via_field = any(f == fld for f in src_fields(prims.sources(er, exn[0].d['a'][1])))
        if via_field:
            # the reserve is tracked in a field: start_reply sets it to the very constant it shrinks by, pieces are released early only by a
            # function that expands by exactly what it subtracts (and never more than is left), end_reply releases the rest
            ws = {F.owner_fn(b_.fn): b_ for b_ in F.bodies.values() if b_.focus and list(b_.field_writes(fld))}
            R.confine('P1', 'writers of ReportDataResponder.reserved', set(ws), {RD + '::start_reply', RD + '::end_reply', RD + '::unreserve', RD + '::new'})
            w0 = [st for i, j, st in sr.field_writes(fld)]
            # ... the constant itself, not an expression over it
            okset = bool(w0) and all(st[1].get('op') == 'use' and st[1]['a'][0].get('k', {}).get('p') == res and st[1]['a'][0].get('k', {}).get('v') == Rv for st in w0)
            un = F.bodies.get(RD + '::unreserve')
            okun = True
            if un is not None:
                ex_u = un.calls(WB + '::expand')
                subs = [st for i, j, st in un.stmts() if st[1].get('op') == 'bin' and st[1].get('b') in ('Sub', 'SubWithOverflow') and any(f == fld for f in src_fields(prims.sources(un, st[1]['a'][0])))]
                same = bool(ex_u) and bool(subs) and all(('arg', 3) in prims.sources(un, t.d['a'][1]) for t in ex_u) and all(('arg', 3) in prims.sources(un, st[1]['a'][1]) for st in subs)
                guard = set()
                for bb, te, fe in prims.cmp_guard_edges(un, 'Gt', lambda s_: ('arg', 3) in s_, lambda s_: any(f == fld for f in src_fields(s_)), symmetric=False):
                    guard |= fe
                for bb, te, fe in prims.cmp_guard_edges(un, 'Le', lambda s_: ('arg', 3) in s_, lambda s_: any(f == fld for f in src_fields(s_)), symmetric=False):
                    guard |= te
                cut_ok = bool(guard) and all(t.bb not in prims.reach(un, (0,), cut_edges=guard) for t in ex_u)
                okun = same and cut_ok
            R.expect('P6', RD, 'the space reserved at start is exactly the space released for the trailer', okset and okun,
                     f'reserved <- {res.split("::")[-1]} = {Rv} in start_reply; released piecewise (expand(len), reserved -= len, len <= reserved) and the rest in end_reply',
                     f'start_reply sets the field from the shrink constant: {okset}; unreserve expands exactly what it subtracts, within what is left: {okun}')
        else:
            R.expect('P6', RD, 'the space reserved at start is exactly the space released for the trailer', s1 == s2 == {res} and k2.get('p') == res and k2.get('v') == Rv, f'shrink({res.split("::")[-1]}) / expand(same) = {Rv}', f'shrink {s1} vs expand {s2}')
        R.expect('P3', er.fn, 'expand precedes every trailer write', not prims.precedes(er, [exn[0].bb], [t.bb for t in er.calls() if t.d.get('f', '').startswith('tlv::write::TLVWrite::')]), 'ok', 'a write before expand')

        def cost(bb):
            t = er.bbs[bb]['t']
            if t['t'] != 'call' or er.is_cleanup(bb):
                return 0
            f = t.get('f', '')
            if f.startswith('tlv::write::TLVWrite::'):
                m = f.split('::')[-1]
                if m not in COST:
                    raise AnchorLost(f'end_reply writes with TLVWrite::{m}: no byte cost known')
                return COST[m]
            return 0
        mx = _max_path_cost(er, cost)
        # pieces of the reserve released before end_reply (constant arguments of unreserve): each site at most once per message
        early = 0
        if via_field:
            for b_ in F.bodies.values():
                if b_.focus and RD + '::unreserve' in b_.calls_summary:
                    for t in b_.calls(RD + '::unreserve'):
                        v = t.d['a'][2].get('k', {}).get('v')
                        if v is None:
                            raise AnchorLost(f'{b_.fn}: unreserve() with a non-constant length')
                        early += v
        R.expect('P6', er.fn, f'maximum trailer size over all paths ({mx} bytes, plus {early} released early for array framing) fits the reserve ({Rv} bytes)', 0 < mx and mx + early <= Rv,
                 f'{mx} + {early} <= {Rv}', f'the trailer can need {mx} bytes and {early} are released early, but only {Rv} are reserved')
        # "a read whose last element exactly fills the message is still answered": the TLVs that close a reports array (and open the events
        # array) on the final path are written into released reserve, not into whatever the elements left over
        for fn_, what in ((RD + '::report_attributes', 'AttributeReports'), (RD + '::report_events', 'EventReports')):
            cb_ = async_body(R, fn_)
            frames = [t for t in cb_.calls('tlv::write::TLVWrite::end_container')] + [t for t in cb_.calls('tlv::write::TLVWrite::start_array') if F.variant_discr(TAGS, 'EventReports') in _tag_value(F, cb_, t.d['a'][1])]
            R.floor(f'array framing writes in {fn_.split("::")[-1]}', len(frames), 1)
            rel = [t.bb for t in cb_.calls(RD + '::unreserve', WB + '::expand')]
            bare = [cb_.where(t.bb) for t in frames if not rel or t.bb in prims.reach(cb_, (0,), cut_blocks=set(rel))] if True else []
            R.expect('P3', cb_.fn, f'the {what} array framing is written into released reserve', not bare, f'{len(frames)} framing write(s), each preceded by a release of the reserve',
                     f'framing write(s) at {bare[:3]} with nothing of the reserve released: when the last element ends exactly at the limit the write fails with NoSpace, the responder gives up and the '
                     'requester gets no answer at all')
        for t in er.calls():
            f = t.d.get('f', '')
            if f.startswith('tlv::write::TLVWrite::') and f.split('::')[-1] in ('bool', 'u8'):
                s = prims.sources(er, t.d['a'][1])
                R.expect('P6', er.fn, f'trailer field at {er.where(t.bb)} uses a one-byte context tag', ('agg', 'tlv::TLVTag', 'Context') in s, 'TLVTag::Context', f'{sorted(map(str, s))[:4]}', er.where(t.bb))

    # ---- b --------------------------------------------------------------------
    with R.clause('b'):
        er = R.body(RD + '::end_reply')
        more_v = F.variant_discr(TAGS, 'MoreChunkedMsgs')
        sup_v = F.variant_discr(TAGS, 'SupressResponse')
        st = [l for l in range(1, er.argc + 1) if er.local_name(l) == 'state']
        chunk_edges, other = prims.enum_local_edges(F, er, lambda pl: pl[0] in st and len(pl) == 1, 'im::ReportDataChunkState', ['ChunkingAttributes', 'ChunkingEvents'])
        done_edges, _ = prims.enum_local_edges(F, er, lambda pl: pl[0] in st and len(pl) == 1, 'im::ReportDataChunkState', ['Done'])
        bools = [t for t in er.calls('tlv::write::TLVWrite::bool')]
        more = [t for t in bools if more_v in _tag_value(F, er, t.d['a'][1])]
        sup = [t for t in bools if sup_v in _tag_value(F, er, t.d['a'][1])]
        R.expect('P5', er.fn, 'end_reply writes MoreChunkedMsgs and SuppressResponse (one site each)', len(more) == 1 and len(sup) == 1 and len(bools) == 2, 'ok', f'more={len(more)} suppress={len(sup)} bools={len(bools)}')
        if more:
            R.cut('P2', er, 'write MoreChunkedMsgs = true', [more[0].bb], 'state is Chunking*', chunk_edges)
            bad = prims.always_followed_by(er, [e[1] for e in chunk_edges], [more[0].bb], exits=ok_return_bbs(er))
            R.expect('P3', er.fn, 'every Chunking* message carries MoreChunkedMsgs', not bad, 'ok', 'a Chunking* path finishes the message without MoreChunkedMsgs')
            R.expect('P6', er.fn, 'MoreChunkedMsgs is written as true', more[0].d['a'][2].get('k', {}).get('v') == 1, 'true', str(more[0].d['a'][2]))
        if sup:
            R.cut('P2', er, 'write SuppressResponse', [sup[0].bb], 'state is Done', done_edges)
        co = async_body(R, RD + '::send')
        st = named_local(co, 'state')
        ce, _ = prims.enum_local_edges(F, co, lambda pl: pl[0] in st and len(pl) == 1, 'im::ReportDataChunkState', ['ChunkingAttributes', 'ChunkingEvents'])
        starts = call_bbs(co, RD + '::start_reply')
        R.floor('start_reply in send', len(starts), 2)
        R.cut('P2', co, 're-open the buffer for the next chunk (start_reply)', starts, 'state is Chunking*', ce)
        R.cut('P2', co, 're-open the buffer for the next chunk (start_reply)', starts, 'the peer\'s status response was received', lambda: R.call_guard(co, RD + '::recv_status_success'))
        R.cut('P2', co, 'await the status / re-open', call_bbs(co, RD + '::recv_status_success') + starts, 'the chunk was sent', lambda: R.call_guard(co, 'transport::exchange::Exchange::send'))
        R.cut('P2', co, 'send the chunk', call_bbs(co, 'transport::exchange::Exchange::send'), 'end_reply ok', lambda: R.call_guard(co, RD + '::end_reply'))
        arrs = [t.bb for t in co.calls('tlv::write::TLVWrite::start_array')]
        R.expect('P3', co.fn, 'start_reply precedes re-opening the report array', not prims.precedes(co, starts, arrs), 'ok', 'start_array reachable before start_reply')

    # ---- c --------------------------------------------------------------------
    with R.clause('c'):
        HI = 'im::invoker::HandlerInvoker'
        for m in ('read', 'write', 'invoke'):
            co = async_body(R, f'{HI}::process_{m}')
            inner = co.calls(f'{HI}::do_process_{m}')
            R.floor(f'do_process_{m} call', len(inner), 1)
            tr = prims.track_result(F, co, inner[0])
            rew = [t for t in co.calls('tlv::write::TLVWrite::rewind_to')]
            R.floor(f'rewind_to in process_{m}', len(rew), 1)
            bad = prims.always_followed_by(co, [e[1] for e in tr.failure], [t.bb for t in rew])
            R.expect('P3', co.fn, 'a failed item is always rewound before the result is returned', bool(tr.failure) and not bad, 'is_err -> rewind_to(tail)', 'an error path returns without rewinding the partial output')
            s = prims.sources(co, rew[0].d['a'][1])
            tails = [t for t in co.calls('tlv::write::TLVWrite::get_tail')]
            R.expect('P10', co.fn, 'the rewind position is the tail taken before the item was processed',
                     any(x[0] == 'call' and x[1] == 'tlv::write::TLVWrite::get_tail' for x in s) and tails and not prims.precedes(co, [tails[0].bb], [inner[0].bb]), 'tail = get_tail(); ..; rewind_to(tail)', f'{sorted(map(str, s))[:4]}')
            dco = async_body(R, f'{HI}::do_process_{m}')
            rw = dco.calls('tlv::write::TLVWrite::rewind_to')
            R.expect('P3', dco.fn, 'a handler error that becomes a status first rewinds the handler\'s partial output', len(rw) >= 1 and any(x[0] == 'call' and x[1] == 'tlv::write::TLVWrite::get_tail' for x in prims.sources(dco, rw[0].d['a'][1])),
                     'rewind_to(pos) before writing the status', 'no rewind before the status')
        sa = async_body(R, RD + '::send_array_items')
        rd = sa.calls(HI + '::read')
        R.floor('invoker.read in send_array_items', len(rd), 1)
        tr = prims.track_result(F, sa, rd[0])
        rew = [t.bb for t in sa.calls('tlv::write::TLVWrite::rewind_to')]
        r = prims.reach(sa, sa.succ[rd[0].bb], cut_edges=tr.success, cut_blocks=set(rew))
        bad = [sa.where(b) for b in sorted(r) if b in set(sa.ret_blocks()) | {rd[0].bb} | set(call_bbs(sa, RD + '::send'))]
        R.expect('P3', sa.fn, 'a failed list item is rewound before the chunk is sent or the read retried', bool(tr.failure) and bool(rew) and not bad, 'Err paths pass rewind_to(pos) first', f'{bad}')
        tails = call_bbs(sa, 'tlv::write::TLVWrite::get_tail')
        R.expect('P3', sa.fn, 'the position is re-taken before every item read', not prims.precedes(sa, tails, [rd[0].bb]) and _between(sa, rd[0].bb, tails), 'get_tail() inside the loop', 'stale rewind position across iterations')
        ra = async_body(R, RD + '::report_attributes')
        pr = ra.calls(HI + '::process_read')
        R.floor('process_read in report_attributes', len(pr), 1)
        sends = ra.calls(RD + '::send')
        R.floor('send(Chunking) in report_attributes', len(sends), 1)
        nexts = [t.bb for t in ra.calls() if t.d.get('f', '').endswith('Iterator::next')]
        R.floor('iterator next in report_attributes', len(nexts), 1)
        for s_ in sends:
            ok_true = prims.track_result(F, ra, s_, inner=1).success
            bad = []
            for (frm, to) in ok_true:
                r = prims.reach(ra, (to,), cut_blocks={pr[0].bb})
                if set(nexts) & r:
                    bad.append(ra.where(frm))
            R.expect('P3', ra.fn, 'after flushing a chunk the same item is read again (the path iterator is not advanced first)', bool(ok_true) and not bad, 'send(..) == true -> process_read(same item)',
                     f'from {bad} the iterator advances before the pending item is retried: the item is lost')

        # events: the reader moves its watermark to the last event it WROTE, so once an event did not fit nothing after it may go
        # into the same chunk (a later, smaller event would carry the watermark past the big one: it is never delivered) -
        # from every error edge of process_read the scan leaves the loop without fetching another event
        ev = closure_in(R, RD + '::report_events', ['EventReader::process_read'])
        per = ev.calls('im::events::EventReader::process_read')
        R.floor('EventReader::process_read in report_events', len(per), 1)
        nx_ev = [t.bb for t in ev.calls() if t.d.get('f', '').endswith('Iterator::next')]
        R.floor('event iterator in report_events', len(nx_ev), 1)
        tr_ev = prims.track_result(F, ev, per[0])
        fe_ = tr_ev.failure
        bad = []
        for (frm, to) in sorted(fe_):
            # the same result is tested twice (`if let Err(e) = &result` and `result?`): once it is known to be Err, its Ok edges are dead
            if set(nx_ev) & prims.reach(ev, (to,), cut_edges=tr_ev.success):
                bad.append(ev.where(frm))
        R.expect('P3', ev.fn, 'after an event that could not be written (NoSpace or any error) no further event is fetched for this chunk', bool(fe_) and not bad,
                 'error edge -> return', f'from {bad} the loop goes on to the next event: a later event that fits moves the watermark past the one that did not')

    # ---- d --------------------------------------------------------------------
    with R.clause('d'):
        sa = async_body(R, RD + '::send_array_items')
        rd = sa.calls('im::invoker::HandlerInvoker::read')
        R.floor('invoker.read in send_array_items', len(rd), 1)
        tr = prims.track_result(F, sa, rd[0])
        # the request handed to the handler: the local AttrDetails clone whose list_index field selects the payload
        req = {l for l in range(len(sa.locals or ())) if sa.local_ty(l).endswith('AttrDetails') or 'AttrDetails<' in sa.local_ty(l) and not sa.local_ty(l).startswith('&')}
        writes = sorted({i for i, j, st in sa.stmts() if st[0][0] in req and any(isinstance(x, str) and x.startswith('.list_index:') for x in st[0][1:])})
        in_loop = prims.reach(sa, sa.succ[rd[0].bb])
        adv = [b for b in writes if b in in_loop]
        R.floor('list_index writes in send_array_items', len(writes), 2)
        R.floor('list_index writes after the item read (inside the loop)', len(adv), 1)
        R.cut_from('P2', sa, rd[0].d['to'], 'select the next payload (write attr.list_index)', adv, 'the item read returned Ok (NoSpace retries the same payload)', tr.success)
        adds = [(i, st) for i, j, st in sa.stmts() if st[1].get('op') == 'bin' and st[1].get('b') in ('Add', 'AddWithOverflow') and not sa.is_cleanup(i)]
        R.expect('P6', sa.fn, 'the index advances by exactly one', len(adds) == 1 and adds[0][1][1]['a'][1].get('k', {}).get('v') == 1, '+ 1', f'{[(st[1]["a"][1]) for i, st in adds]}')
        vals = set()
        for i, j, st in sa.stmts():
            if i in adv and st[0][0] in req and any(isinstance(x, str) and x.startswith('.list_index:') for x in st[0][1:]):
                for a in st[1].get('a', ()):
                    vals |= prims.sources(sa, a, through=('utils::maybe::Maybe::some', 'utils::maybe::Maybe::new'))
        R.expect('P6', sa.fn, 'the first item index is 0', ('const', 0) in vals, '0', f'constants reaching the index: {sorted(x[1] for x in vals if x[0] == "const" and x[1] is not None)}')

    # ---- e --------------------------------------------------------------------
    with R.clause('e'):
        clause_e(R)

    # ---- f --------------------------------------------------------------------
    with R.clause('f'):
        # events exactly once across the chunks of a priming and the first regular report (shared with C13-e)
        from C13 import event_range_rule
        event_range_rule(R)


def clause_e(R):
    """(e) every buffer a report / response is built in is sized to what one exchange message can carry"""
    import p7
    F = R.facts
    MAXP = 'transport::exchange::MAX_EXCHANGE_TX_BUF_SIZE'
    mx = F.const_val(MAXP)
    if not isinstance(mx, int):
        raise AnchorLost(f'{MAXP} has no evaluated value')
    sites = [(b, t) for b in F.bodies.values() if b.focus and b.fn.startswith('im::') and '::tests::' not in b.fn
             for t in b.calls('utils::storage::vec::Vec::resize_default')]
    R.floor('IM TX buffer sizing sites (resize_default in im::)', len(sites), 2)
    for n, (b, t) in enumerate(sorted(sites, key=lambda x: (x[0].fn, x[1].line))):
        k = p7.expr_key(b, t.d['a'][1])
        c = p7._eval_key(k)
        R.expect('P6', b.fn, f'TX buffer sizing #{n + 1}: the size is a compile-time constant not above MAX_EXCHANGE_TX_BUF_SIZE ({mx})', c is not None and 0 < c <= mx,
                 f'{k}', f'resize_default({k}): not a constant <= {mx}; a chunk built in this buffer can exceed what Exchange::send can carry', b.where(t.bb))


def _between(body, target, tails):
    # a get_tail lies on every cycle through target
    r = prims.reach(body, body.succ[target], cut_blocks=set(tails))
    return target not in r


def _init_blocks(body, locals_):
    out = set()
    for l in locals_:
        ds = [(bb, idx) for (bb, idx, kind, p) in body.defs.get(l, ()) if kind == 'assign']
        if ds:
            out.add(min(ds)[0])
    return out


def _locals(body, operand):
    out = set()
    p = op_place(operand)
    if not p:
        return out
    work = [p[0]]
    while work:
        l = work.pop()
        if l in out:
            continue
        out.add(l)
        for (bb, i, kind, payload) in body.defs.get(l, ()):
            if kind == 'assign' and payload[1].get('op') in ('use', 'cast'):
                q = op_place(payload[1]['a'][0])
                if q:
                    work.append(q[0])
    return out
