"""C11 - Persisted state survives a crash at any point and reloads to what was committed (structural clauses)."""
from common import (mentions, closure_in, async_body, closure_arg_sites, ok_return_bbs, call_bbs, named_local, src_calls,
                    src_fields, src_consts, bodies_of, result_used)
from facts import AnchorLost, op_place
import prims

EXPLANATION = """
Static structural rules over persist.rs, lib.rs, fabric.rs, im.rs and every module that touches the key-value store
(each store / remove is one atomic step, as in the property's own model):
(a) key layout (CTFE constants): all persist::*_KEY values are pairwise distinct, lie above the fabric range
[FABRIC_KEYS_START, +256) and below PERSISTENT_SUBSCRIPTIONS_START, and the subscription range ends at VENDOR_KEYS_START;
fabric keys are FABRIC_KEYS_START + index on the store, load and remove side, and the start-up / reset loops run over the
whole index range 1..=255;
(b) store / load / remove agreement: for every key constant that has a store site in the crate there is a load site and a
remove site (documented exceptions: application-driven ICD keys); computed fabric keys: FabricPersist::store/remove,
Fabrics::add_load/reset_persist;
(c) start-up / factory-reset sibling agreement: the set of state components on which Matter::startup calls load_persist
equals the set on which Matter::factory_reset calls reset_persist (and the same for InteractionModelState);
(d) no storage error is dropped: the Result of every KvBlobStore::store/remove, Persist::store/store_tlv/remove and
FabricPersist::store/remove call in hand-written code is tested, propagated or returned (one documented best-effort remove);
RemoveFabric: from the success edge of Fabrics::remove every path reaches FabricPersist::remove (write before acknowledge);
(e) a damaged resumption cache never blocks start-up: in ResumableSessions::load_persist the parse-error arm returns Ok and
only the load I/O error propagates.
"""
CLAUSES = ['a: key layout', 'b: store/load/remove agreement per key', 'c: start-up and factory-reset handle the same components', 'd: storage errors never dropped; removal persisted before acknowledging',
           'e: soft-fail load of the optional cache', 'f: every cluster handler that mutates a fabric persists it; a refused label update leaves the fabric untouched', 'g: the subscription mirror writes or clears every slot key', 'h: CommissioningComplete writes the fabric record unconditionally']
NOT_DECIDED = ['round-trip equality of each persisted structure', 'behaviour at each crash prefix of a multi-write history', 'atomicity of the example file-backed store']
MIN_OBLIGATIONS = {'q': 60, 'd': 45, 'r': 45}

KV = 'persist::KvBlobStore::'
STORE_FNS = {KV + 'store': 1, 'persist::Persist::store': 1, 'persist::Persist::store_tlv': 1}
LOAD_FNS = {KV + 'load': 1}
REMOVE_FNS = {KV + 'remove': 1, 'persist::Persist::remove': 1}
APP_DRIVEN = {'persist::ICD_REGISTERED_CLIENTS_KEY': 'icd_mgmt.rs documents registration persistence as application-driven (Icd::store_registrations / load_registrations called by the app)',
              'persist::ICD_CHECK_IN_COUNTER_KEY': 'icd_mgmt.rs documents the check-in counter persistence as application-driven'}


def _key_sites(F, fns):
    out = {}
    for b in F.bodies.values():
        if not b.focus or not (set(fns) & b.calls_summary):
            continue
        for t in b.calls(*fns):
            idx = fns.get(t.d.get('f'), 1)
            if idx >= len(t.d['a']):
                continue
            s = prims.sources(b, t.d['a'][idx])
            keys = {x[1] for x in s if x[0] == 'constp' and x[1].startswith('persist::') and (x[1].endswith('_KEY') or x[1].endswith('_START'))}
            for k in keys:
                out.setdefault(k, []).append((b, t))
            if not keys:
                out.setdefault('?', []).append((b, t))
    return out


def check(R):
    F = R.facts
    feats = F.hdr.get('features') or ''
    # ---- a --------------------------------------------------------------------
    with R.clause('a'):
        pass
        keys = {k: v['v'] for k, v in F.consts.items() if k.startswith('persist::') and k.endswith('_KEY') and v['v'] is not None}
        R.floor('persist::*_KEY constants', len(keys), 12)
        vals = sorted(keys.values())
        R.expect('P6', 'persist', 'all singleton keys are pairwise distinct', len(set(vals)) == len(vals), f'{len(vals)} distinct values', f'duplicate key values: {sorted(keys.items(), key=lambda x: x[1])}')
        fs = F.const_val('persist::FABRIC_KEYS_START')
        subs = F.const_val('persist::PERSISTENT_SUBSCRIPTIONS_START')
        sube = F.const_val('persist::PERSISTENT_SUBSCRIPTIONS_END')
        vend = F.const_val('persist::VENDOR_KEYS_START')
        R.expect('P6', 'persist', 'singleton keys lie above the fabric key range and below the subscription range', all(fs + 256 <= v < subs for v in vals), f'[{fs + 256}, {subs})', f'{min(vals)}..{max(vals)} vs fabrics {fs}+256, subscriptions {subs}')
        R.expect('P6', 'persist', 'subscription key range ends where vendor keys start and is not empty', subs < sube <= vend, f'{subs}..{sube} <= {vend}', f'{subs}..{sube} vs {vend}')
        for fn, callee, role in (('fabric::FabricPersist::store', 'persist::Persist::store_tlv', 'store'), ('fabric::FabricPersist::remove', 'persist::Persist::remove', 'remove'),
                                 ('fabric::Fabrics::add_load', KV + 'load', 'load'), ('fabric::Fabrics::reset_persist', KV + 'remove', 'remove')):
            b = R.body(fn)
            ts = b.calls(callee)
            R.floor(f'{callee} in {fn}', len(ts), 1)
            s = prims.sources(b, ts[0].d['a'][1])
            adds = [1 for i, j, st in b.stmts() if st[1].get('op') == 'bin' and st[1].get('b') in ('Add', 'AddWithOverflow')]
            R.expect('P10', fn, f'fabric {role} key is FABRIC_KEYS_START + index', any(x[0] == 'constp' and x[1] == 'persist::FABRIC_KEYS_START' for x in s) and bool(adds), 'FABRIC_KEYS_START + idx', f'{sorted(map(str, s))[:5]}')
        for fn in ('fabric::Fabrics::load_persist', 'fabric::Fabrics::reset_persist'):
            R.body(fn)
            rngs = []
            for q in prims.reachable_fns(F, [fn], depth=2, through_traits=False):
                qb = F.bodies.get(q)
                if qb is None or not qb.focus or not q.startswith('fabric::'):
                    continue
                for t in qb.calls():
                    if t.d.get('f', '').endswith('RangeInclusive::new') or t.d.get('f', '').endswith('Range::new'):
                        rngs.append((qb, t))
                for i, j, st in qb.stmts():
                    if st[1].get('op') == 'agg' and st[1].get('adt', '').startswith('core::ops::range::Range'):
                        rngs.append((qb, None, st, i))
            R.floor(f'index range reachable from {fn}', len(rngs), 1)
            for ent in rngs:
                qb = ent[0]
                if ent[1] is not None:
                    lo, hi = ent[1].d['a'][0].get('k', {}).get('v'), ent[1].d['a'][1].get('k', {}).get('v')
                    incl = ent[1].d['f'].endswith('RangeInclusive::new')
                    where = qb.where(ent[1].bb)
                else:
                    a = ent[2][1]['a']
                    lo, hi = a[0].get('k', {}).get('v'), a[1].get('k', {}).get('v')
                    incl = 'Inclusive' in ent[2][1]['adt']
                    where = qb.where(ent[3])
                top = hi if incl else (hi - 1 if hi is not None else None)
                R.expect('P6', fn, 'the loop covers every fabric index a store can use (1..=255)', lo == 1 and top == 255, '1..=255',
                         f'{lo}..{"=" if incl else ""}{hi} in {qb.fn}: fabrics stored under an index outside this range are not reloaded / not erased', where)

    # ---- b --------------------------------------------------------------------
    with R.clause('b'):
        pass
        st, ld, rm = _key_sites(F, STORE_FNS), _key_sites(F, LOAD_FNS), _key_sites(F, REMOVE_FNS)
        stored = sorted(k for k in st if k not in ('?', 'persist::FABRIC_KEYS_START'))
        R.floor('singleton keys with a store site', len(stored), 9)
        for k in stored:
            w = st[k][0]
            R.expect('P5', k, f'{k.split("::")[-1]} has a load site (what is stored is read back at start-up)', k in ld, f'loaded in {sorted({F.owner_fn(b.fn) for b, t in ld.get(k, [])})[:3]}',
                     f'{k} is stored in {F.owner_fn(w[0].fn)} but never loaded', w[0].where(w[1].bb))
            if k in APP_DRIVEN:
                R.note(f'{k}: remove site not required - {APP_DRIVEN[k]}')
                continue
            R.expect('P5', k, f'{k.split("::")[-1]} has a remove site (a factory reset leaves nothing behind)', k in rm, f'removed in {sorted({F.owner_fn(b.fn) for b, t in rm.get(k, [])})[:3]}',
                     f'{k} is stored in {F.owner_fn(w[0].fn)} but no code path removes it', w[0].where(w[1].bb))
        for k in sorted(ld):
            if k in ('?', 'persist::FABRIC_KEYS_START'):
                continue
            R.expect('P5', k, f'{k.split("::")[-1]}: a key that is loaded is also stored somewhere', k in st, 'ok', f'{k} is loaded but never stored')

    # ---- c --------------------------------------------------------------------
    with R.clause('c'):
        pass
        def comps(owner, suffix):
            out = set()
            for b in bodies_of(F, owner):
                for c in b.calls_summary:
                    if c.endswith('::' + suffix):
                        out.add(c[:-len(suffix) - 2])
            return out
        a, b_ = comps('Matter::startup', 'load_persist'), comps('Matter::factory_reset', 'reset_persist')
        R.floor('components loaded by Matter::startup', len(a), 3)
        R.expect('P5', 'Matter::startup', 'startup and factory_reset handle the same state components', a == b_, f'{sorted(x.split("::")[-1] for x in a)}',
                 f'loaded only: {sorted(a - b_)}; reset only: {sorted(b_ - a)}')

        def reach_comps(root, suffix):
            out = set()
            for fn in prims.reachable_fns(F, [root], depth=5):
                if fn.endswith('::' + suffix) and not fn.startswith('im::InteractionModelState'):
                    out.add(fn[:-len(suffix) - 2])
            return out
        a, b_ = reach_comps('im::InteractionModel::startup', 'load_persist'), reach_comps('im::InteractionModel::factory_reset', 'reset_persist')
        R.floor('components loaded by InteractionModel::startup', len(a), 1)
        R.expect('P5', 'im::InteractionModel::startup', 'InteractionModel startup and factory_reset handle the same state components', a <= b_ and len(b_ - a) <= 0 or a == b_,
                 f'{sorted(x.split("::")[-1] for x in a)}', f'loaded only: {sorted(a - b_)}; reset only: {sorted(b_ - a)}')
        for owner in ('Matter::startup', 'Matter::factory_reset'):
            for b in bodies_of(F, owner):
                for c in sorted(b.calls_summary):
                    if c.endswith('::load_persist') or c.endswith('::reset_persist'):
                        result_used(R, 'P8', b, (c,))

    # ---- d --------------------------------------------------------------------
    with R.clause('d'):
        pass
        crit = [KV + 'store', KV + 'remove', 'persist::Persist::store', 'persist::Persist::store_tlv', 'persist::Persist::remove', 'fabric::FabricPersist::store', 'fabric::FabricPersist::remove',
                'fabric::FabricPersist::run', 'persist::Persist::run']
        SOFT = {('sc::case::resumption::ResumableSessions::load_persist', KV + 'remove'): 'best-effort drop of an unparseable optional cache'}
        n = 0
        for b in F.bodies.values():
            if not b.focus or b.fn.startswith(('<&mut', '<&')):
                continue
            for c in crit:
                if c in b.calls_summary:
                    if (F.owner_fn(b.fn), c) in SOFT:
                        R.note(f'{b.fn}: {c} result intentionally ignored - {SOFT[(F.owner_fn(b.fn), c)]}')
                        continue
                    result_used(R, 'P8', b, (c,))
                    n += 1
        R.floor('storage call sites checked', n, 40)
        NOC = '<dm::clusters::noc::NocHandler as dm::clusters::decl::operational_credentials::ClusterHandler>'
        rf = closure_in(R, NOC + '::handle_remove_fabric', ['Fabrics::remove'])
        succ = R.call_guard(rf, 'fabric::Fabrics::remove')
        bad = prims.always_followed_by(rf, [e[1] for e in succ], call_bbs(rf, 'fabric::FabricPersist::remove'))
        R.expect('P3', rf.fn, 'RemoveFabric: once the fabric is dropped from memory every path erases its stored copy', not bad, 'fabrics.remove ok -> persist.remove on every path',
                 'a path drops the fabric from memory and returns without removing it from the key-value store: it comes back after a restart')
        top = [b for b in bodies_of(F, NOC + '::handle_remove_fabric') if b.fn == NOC + '::handle_remove_fabric'][0]
        ends = [t.bb for t in top.calls() if t.d.get('f', '').endswith('::end')]
        runs = [t.bb for t in top.calls('fabric::FabricPersist::run')]
        if runs and ends:
            miss = prims.precedes(top, runs, ends)
            R.expect('P3', top.fn, 'the store is flushed before the response is finished', not miss, 'persist.run() precedes end()', 'end() reachable without persist.run()')

    # ---- e --------------------------------------------------------------------
    with R.clause('e'):
        pass
        if 'case-resumption' in feats:
            lp = R.body('sc::case::resumption::ResumableSessions::load_persist')
            # whatever shape the decoding takes: the only failures that may leave load_persist as an error are those of the store itself
            # (load / remove); every other fallible call - TLV decoding in particular - is answered by dropping the cache
            errblocks = {i_ for i_, blk in enumerate(lp.bbs) if not blk.get('c') and (
                any(st[1].get('op') == 'agg' and st[1].get('var') == 'Err' and st[0][0] == 0 for st in blk['s'])
                or (blk['t']['t'] == 'call' and blk['t'].get('f') == 'core::ops::try_trait::FromResidual::from_residual' and blk['t']['d'][0] == 0))}
            R.floor('error returns of ResumableSessions::load_persist', len(errblocks), 1)
            prop, nfall = [], 0
            for t in lp.calls():
                f_ = t.d.get('f', '')
                if f_.startswith(('core::ops::try_trait::', 'core::fmt::', 'log::', 'core::panicking')) or lp.is_cleanup(t.bb):
                    continue
                try:
                    tr = prims.track_result(F, lp, t)
                except Exception:
                    continue
                if not tr.failure:
                    continue
                nfall += 1
                r = set()
                for (frm, to) in tr.failure:
                    r |= prims.reach(lp, (to,))
                # an error edge that merely reaches the common error-handling arm is fine when that arm itself cannot return Err except
                # through a storage call: judge by direct propagation - the failure edge leads to an Err return without passing a store call
                stores = {c.bb for c in lp.calls(KV + 'load', KV + 'remove', KV + 'store')}
                r2 = set()
                for (frm, to) in tr.failure:
                    r2 |= prims.reach(lp, (to,), cut_blocks=stores)
                if errblocks & r2 and not f_.startswith(KV):
                    prop.append(f'{f_.split("::")[-2]}::{f_.split("::")[-1]} at {lp.where(t.bb)}')
            R.floor('fallible calls in ResumableSessions::load_persist', nfall, 2)
            R.expect('P8', lp.fn, 'only a failure of the store itself can leave load_persist as an error (a damaged cache is dropped, start-up continues)', not prop,
                     'decode errors end in the drop-the-cache arm', f'the error of {prop} propagates to the caller: a damaged optional cache prevents start-up')
            ld_ = lp.calls(KV + 'load')
            R.floor('load in ResumableSessions::load_persist', len(ld_), 1)
            result_used(R, 'P8', lp, (KV + 'load',))

    # ---- f --------------------------------------------------------------------
    with R.clause('f'):
        fabric_mutators_persist(R)
        # ... and a mutator that REFUSES leaves the in-memory fabric as it was (what the store holds): Fabrics::update_label checks that the
        # new label fits before it clears the old one - clear() is cut by the length test.  (A 33-byte label was answered CONSTRAINT_ERROR
        # with the running node's label already wiped, while the store kept the old one.)
        ul = R.body('fabric::Fabrics::update_label')
        clears = [t.bb for t in ul.calls() if any(n.endswith('::clear') for n in t.callee_names())]
        R.floor('label.clear() in Fabrics::update_label', len(clears), 1)

        def fits():
            e = set()
            islen = lambda s_: any(c.endswith('::len') for c in src_calls(s_))
            iscap = lambda s_: any(c.endswith('::capacity') for c in src_calls(s_)) or any(isinstance(v, int) and v > 0 for v in src_consts(s_))
            for bb, te, fe in prims.cmp_guard_edges(ul, 'Gt', islen, iscap, symmetric=False):
                e |= fe
            for bb, te, fe in prims.cmp_guard_edges(ul, 'Le', islen, iscap, symmetric=False):
                e |= te
            for bb, te, fe in prims.cmp_guard_edges(ul, 'Lt', iscap, islen, symmetric=False):
                e |= fe
            for bb, te, fe in prims.cmp_guard_edges(ul, 'Ge', iscap, islen, symmetric=False):
                e |= te
            if not e:
                from facts import GuardMissing
                raise GuardMissing(f'{ul.fn}: the length of the new label is not compared with the capacity before the old label is cleared')
            return e
        R.cut('P2', ul, 'clear the current label', clears, 'the new label fits (label.len() <= capacity)', fits)

    # ---- h --------------------------------------------------------------------
    with R.clause('h'):
        # the fabric-scoped write handlers defer their store while the fail-safe is armed for the fabric and rely on CommissioningComplete
        # to write the record: that write is unconditional - its success edge cuts the command's Ok, whatever was staged
        GC = '<dm::clusters::gen_comm::GenCommHandler as dm::clusters::decl::general_commissioning::ClusterHandler>::handle_commissioning_complete'
        cc = closure_in(R, GC, ['FailSafe::disarm', 'FabricPersist::store'])
        R.cut('P2', cc, 'CommissioningComplete reports success (Ok)', ok_return_bbs(cc), 'the fabric record was written (FabricPersist::store ok)', lambda: R.call_guard(cc, 'fabric::FabricPersist::store'))

    # ---- g --------------------------------------------------------------------
    if 'persistent-subscriptions' in (F.hdr.get('features') or ''):
      with R.clause('g'):
        # the persisted subscription table is a dense mirror (slot i = i-th live subscription): on every pass each slot key is either
        # written or cleared - a record that is skipped (too large) must not leave the previous occupant's record behind
        pa = closure_in(R, 'im::subscriptions::Subscriptions::persist_all', ['KvBlobStore::store'])
        ser = [t for t in pa.calls('tlv::traits::ToTLV::to_tlv') if True]
        R.floor('record serialisation in persist_all', len(ser), 1)
        wr = call_bbs(pa, 'persist::KvBlobStore::store') + [t.bb for t in pa.calls('persist::KvBlobStore::remove')]
        nx = [t.bb for t in pa.calls('core::iter::traits::iterator::Iterator::next')]
        R.floor('loop over the live table in persist_all', len(nx), 1)
        fail = prims.track_result(F, pa, ser[0]).failure
        bad = []
        for (frm, to) in sorted(fail):
            r = prims.reach(pa, (to,), cut_blocks=set(wr))
            if set(nx) & r or set(pa.ret_blocks()) & r:
                bad.append(pa.where(frm))
        # ... and the tail purge covers every slot the table does not occupy, up to the capacity N of the key range - bounded by nothing the
        # running process merely remembers (a fresh boot remembers nothing, the store may hold more records than this boot ever wrote)
        rngs = [(i, st) for i, j, st in pa.stmts() if st[1].get('op') == 'agg' and st[1].get('adt') == 'core::ops::range::Range' and not pa.is_cleanup(i)
                and any(c.endswith('::len') for c in src_calls(prims.sources(pa, st[1]['a'][0])))]
        R.floor('tail purge range (len..) in persist_all', len(rngs), 1)
        for i, st in rngs:
            end = st[1]['a'][1]
            es = prims.sources(pa, end) if 'k' not in end else set()
            R.expect('P10', pa.fn, 'the tail purge runs from the table length to the capacity of the slot range (a constant)', 'k' in end or not (src_fields(es) or src_calls(es)),
                     'len..N', f'the upper bound derives from {sorted(src_fields(es)) or sorted(src_calls(es))}: records beyond it - written in an earlier boot - are never removed and come back after a restart', pa.where(i))
        R.expect('P3', pa.fn, 'a subscription record that is skipped still has its slot key cleared before the next slot', bool(fail) and not bad, 'to_tlv is_err -> KvBlobStore::remove(key) -> continue',
                 f'from {bad} the loop moves on without store() or remove() of the slot key: the record of a subscription that ended stays on flash and comes back after a restart', bad[0] if bad else '')


def fabric_mutators_persist(R):
    """A change confirmed to a peer survives a restart only if the handler that made it wrote the fabric record: every data-model
    cluster handler (a `ClusterHandler` trait method of dm::clusters::*) from which a mutating method of Fabric / Fabrics is reachable
    (within the handler's own module) also reaches FabricPersist::store or ::remove.  Exceptions are named with their reason."""
    F = R.facts
    MUT = set()
    for b in F.bodies.values():
        if b.fn.startswith(('fabric::Fabric::', 'fabric::Fabrics::')) and '::{' not in b.fn and b.argc >= 1 and b.local_ty(1) in ('&mut fabric::Fabric', '&mut fabric::Fabrics'):
            MUT.add(b.fn)
    # not mutations of a persisted record by themselves: loading / wiping the whole table
    MUT -= {'fabric::Fabrics::load_persist', 'fabric::Fabrics::reset', 'fabric::Fabrics::reset_persist', 'fabric::Fabrics::add_load'}
    R.floor('mutating methods of Fabric / Fabrics', len(MUT), 12 if 'groups' in (F.hdr.get('features') or '') else 10)
    EXC = {
        'handle_add_noc': 'AddNOC stages the fabric under the fail-safe: CommissioningComplete persists it, expiry rolls it back (C08)',
        'handle_update_noc': 'UpdateNOC stages the change under the fail-safe: CommissioningComplete persists it, expiry reloads the stored record (C08)',
        'handle_arm_fail_safe': 'ArmFailSafe(0) / expiry rolls staged changes back; FailSafe::expire does its own persistence (C07 / C08)',
        'handle_commissioning_complete': 'persists through FabricPersist::store (counted as reaching it)',
    }
    STORE = ('fabric::FabricPersist::store', 'fabric::FabricPersist::remove')
    handlers = sorted({F.owner_fn(b.fn) for b in F.bodies.values() if b.focus and '::ClusterHandler>::' in b.fn and b.fn.lstrip('<').startswith('dm::clusters::') and '::decl::' in b.fn})
    R.floor('cluster handler entry points', len(handlers), 100)
    # only cluster modules in which some body calls a mutator at all can have such a handler
    mods_with_mut = {b.fn.lstrip('<').split(' as ')[0].rsplit('::', 1)[0] if b.fn.startswith('<') else '::'.join(b.fn.split('::')[:3])
                     for b in F.bodies.values() if b.focus and b.fn.lstrip('<').startswith('dm::clusters::') and (set(b.calls_summary) & MUT)}
    mods_with_mut = {'::'.join(m.split('::')[:3]) for m in mods_with_mut}
    n = 0
    for h in handlers:
        mod = h.lstrip('<').split(' as ')[0].rsplit('::', 1)[0]     # dm::clusters::<module>
        if '::'.join(mod.split('::')[:3]) not in mods_with_mut:
            continue
        # stay inside the cluster's own module (plus the mutators / the store themselves): what the handler does, not what the stack does
        seen = prims.reachable_fns(F, [h], depth=6, through_traits=False,
                                   stop={f for f in F.bodies if not (f.lstrip('<').startswith(mod) or f == h or F.owner_fn(f) == h)})
        muts = sorted(m for m in MUT if m in seen)
        if not muts:
            continue
        n += 1
        name = h.split('::')[-1]
        if name in EXC and name != 'handle_commissioning_complete':
            R.ok('P5', h, f'{name} mutates a fabric and persists it', f'exception: {EXC[name]}')
            continue
        stored = [c for c in STORE if c in seen]
        R.expect('P5', h, f'{name} mutates a fabric ({", ".join(m.split("::")[-1] for m in muts)}) and persists it', bool(stored), f'reaches {[c.split("::")[-1] for c in stored]}',
                 f'{name} can call {muts} but never reaches FabricPersist::store / ::remove: the change is acknowledged and lost at the next restart', f'{F.body(h).file}:{F.body(h).line}' if h in F.bodies else '')
    # the groups / group-key / groupcast clusters exist only with the `groups` feature
    # ... on every path: once a mutating call on the fabric succeeded, the only way to report success without FabricPersist::store is the
    # fail-safe deferral (is_armed_for / has_pending_noc_for == true: CommissioningComplete writes the record) - not "nothing changed"
    # guesses about what the mutation did
    ARMED = ('failsafe::FailSafe::is_armed_for', 'failsafe::FailSafe::has_pending_noc_for', 'failsafe::FailSafe::is_armed')
    ACCESSORS = ('::fabric_mut', '::get_mut', '::groups_mut', '::fabric', '::get', '::iter_mut')
    npaths = 0
    for b in sorted((b for b in F.bodies.values() if b.focus and b.fn.lstrip('<').startswith('dm::clusters::') and '::tests::' not in b.fn
                     and 'fabric::FabricPersist::store' in b.calls_summary and '::handle_commissioning_complete' not in b.fn), key=lambda b: b.fn):
        stores = {t.bb for t in b.calls('fabric::FabricPersist::store')}
        armed = set()
        for t in b.calls(*ARMED):
            armed |= prims.track_result(F, b, t).success
        oks = set(ok_return_bbs(b))
        if not oks:
            continue
        for t in b.calls():
            cal = t.d.get('r') or t.d.get('f', '')
            cb = F.bodies.get(cal)
            if cb is None or cb.argc < 1 or not cb.local_ty(1).startswith('&mut fabric::') or cal.endswith(ACCESSORS) or not cal.startswith('fabric::') or 'FabricPersist' in cal:
                continue
            if not cb.rec.get('ret', '').startswith('core::result::Result'):
                continue
            tr = prims.track_result(F, b, t)
            if not tr.success:
                continue
            npaths += 1
            r = set()
            for (frm, to) in tr.success:
                r |= prims.reach(b, (to,), cut_blocks=stores, cut_edges=armed)
            bad = sorted(oks & r)
            R.expect('P3', b.fn, f'after {cal.split("::")[-2]}::{cal.split("::")[-1]} succeeded, success is reported only after FabricPersist::store - or under the fail-safe deferral',
                     not bad, 'store on every path, except is_armed_for == true', f'Ok at {[b.where(x) for x in bad]} is reachable after the mutation without a store and without the fail-safe being armed: '
                     'the change is acknowledged and lost at the next restart', b.where(t.bb))
    R.floor('mutation -> store paths examined', npaths, 6 if 'groups' in (F.hdr.get('features') or '') else 2)
    R.floor('cluster handlers that mutate a fabric', n, 12 if 'groups' in (F.hdr.get('features') or '') else 4)

