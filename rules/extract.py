"""Freshness-keyed driver for the rsm-facts extractor.

ensure_facts(config) returns the path of a fact file that was produced from
/repo's *current* working tree (keyed by a SHA-256 over its sources, the
feature list and the extractor binary), running cargo under the wrapper when no
such file exists yet.
"""
import fcntl
import hashlib
import json
import os
import shutil
import subprocess
import sys
import time

VERIF = os.path.dirname(os.path.dirname(os.path.abspath(__file__)))
REPO = os.environ.get('VERIF_REPO', '/repo')
CACHE = os.path.join(VERIF, '.cache')
DRIVER = os.path.join(VERIF, 'engine', 'rsm-facts', 'target', 'release', 'rsm-facts')
FOCUS = os.path.join(VERIF, 'engine', 'focus.txt')

WS = ("async-io,groups,persistent-subscriptions,max-groups-per-fabric-12,"
      "max-group-keys-per-fabric-3,max-group-endpoints-per-fabric-3,max-sessions-32")
CONFIGS = {
    # the feature set the 705 baseline tests are built with + case-resumption
    'q': WS + ',case-resumption',
    # crate defaults only: no groups, no persistent subscriptions, no resumption
    'd': '',
    # responder-only accessory with large buffers
    'r': 'case-responder-only,large-buffers,groups',
}
BODY_FLOOR = {'q': 90000, 'd': 80000, 'r': 80000}


def tree_hash():
    h = hashlib.sha256()
    roots = []
    for top in sorted(os.listdir(REPO)):
        if top in ('target', '.git', 'docs', 'bloat-check', 'xtask'):
            continue
        roots.append(os.path.join(REPO, top))
    files = []
    for r in roots:
        if os.path.isfile(r):
            files.append(r)
            continue
        for dp, dn, fn in os.walk(r):
            dn[:] = [d for d in dn if d not in ('target', '.git')]
            for f in fn:
                if f.endswith(('.rs', '.toml', '.lock', '.matter', '.json', '.pem', '.der')) or f == 'Cargo.lock':
                    files.append(os.path.join(dp, f))
    for f in sorted(files):
        h.update(os.path.relpath(f, REPO).encode())
        h.update(b'\0')
        with open(f, 'rb') as fh:
            h.update(fh.read())
        h.update(b'\0')
    with open(DRIVER, 'rb') as fh:
        h.update(fh.read())
    with open(FOCUS, 'rb') as fh:
        h.update(fh.read())
    return h.hexdigest()[:20]


def sysroot():
    return subprocess.check_output(['rustc', '+nightly', '--print', 'sysroot'], text=True).strip()


def _log(msg):
    print(f"[extract] {msg}", file=sys.stderr, flush=True)


def ensure_driver():
    if not os.path.exists(DRIVER):
        _log("building rsm-facts driver")
        env = dict(os.environ, CARGO_NET_OFFLINE='true')
        subprocess.check_call(['cargo', 'build', '--release', '--offline'],
                              cwd=os.path.join(VERIF, 'engine', 'rsm-facts'), env=env,
                              stdout=subprocess.DEVNULL, stderr=subprocess.DEVNULL)


class ExtractError(Exception):
    pass


def ensure_facts(config='q'):
    os.makedirs(CACHE, exist_ok=True)
    ensure_driver()
    th = tree_hash()
    out = os.path.join(CACHE, f'facts-{config}-{th}.jsonl')
    if os.path.exists(out):
        try:
            os.utime(out)   # eviction is by mtime: a file in use stays
        except OSError:
            pass
        return out, th, 0.0
    lane = os.environ.get('VERIF_LANE', '')     # parallel lanes (tools/seed_detect.py) build in target directories of their own
    lockf = open(os.path.join(CACHE, f'lock-{config}{lane}'), 'w')
    fcntl.flock(lockf, fcntl.LOCK_EX)
    try:
        if os.path.exists(out):
            return out, th, 0.0
        t0 = time.time()
        target = os.path.join(CACHE, f'target-{config}{lane}')
        # cargo's freshness cache would skip the wrapper: drop the member's fingerprints
        fpdir = os.path.join(target, 'debug', '.fingerprint')
        if os.path.isdir(fpdir):
            for d in os.listdir(fpdir):
                if d.startswith('rs-matter-') and not d.startswith(('rs-matter-macros', 'rs-matter-codegen')):
                    shutil.rmtree(os.path.join(fpdir, d), ignore_errors=True)
        env = dict(os.environ)
        sr = sysroot()
        env.update({
            'LD_LIBRARY_PATH': sr + '/lib' + (':' + env['LD_LIBRARY_PATH'] if env.get('LD_LIBRARY_PATH') else ''),
            'CARGO_INCREMENTAL': '0',
            'RUSTFLAGS': '-Zmir-opt-level=0 -Awarnings',
            'RUSTC_WORKSPACE_WRAPPER': DRIVER,
            'CARGO_TARGET_DIR': target,
            'CARGO_NET_OFFLINE': 'true',
            'RSM_FACTS_OUT': out + '.part',
            'RSM_FACTS_FOCUS': FOCUS,
            'RSM_FACTS_THREADS': os.environ.get('RSM_FACTS_THREADS', '8'),
            'RSM_FACTS_TREE_HASH': th,
            'RSM_FACTS_FEATURES': CONFIGS[config],
        })
        cmd = ['cargo', '+nightly', 'check', '--offline', '-p', 'rs-matter', '--lib']
        if CONFIGS[config]:
            cmd += ['--features', CONFIGS[config]]
        _log(f"extracting facts for config {config} (tree {th}) ...")
        if os.path.exists(out + '.part'):
            os.remove(out + '.part')
        p = subprocess.run(cmd, cwd=REPO, env=env, stdout=subprocess.PIPE, stderr=subprocess.STDOUT, text=True)
        if p.returncode != 0:
            tail = '\n'.join(p.stdout.splitlines()[-40:])
            raise ExtractError(f"cargo check under the extractor failed (config {config}):\n{tail}")
        if not os.path.exists(out + '.part'):
            raise ExtractError("extractor produced no fact file (cargo replayed a cached result?)")
        with open(out + '.part') as fh:
            hdr = json.loads(fh.readline())
        if hdr.get('tree_hash') != th:
            raise ExtractError("fact file header does not match the tree hash")
        if hdr.get('n_bodies', 0) < BODY_FLOOR[config] or hdr.get('n_stolen', 1) != 0:
            raise ExtractError(f"fact file incomplete: {hdr}")
        os.rename(out + '.part', out)
        # keep only the two newest fact files of this config
        olds = sorted((f for f in os.listdir(CACHE) if f.startswith(f'facts-{config}-') and f.endswith('.jsonl')),
                      key=lambda f: os.path.getmtime(os.path.join(CACHE, f)))
        for f in olds[:-int(os.environ.get('VERIF_CACHE_KEEP', '3')):]:
            # a file touched in the last half hour may be in use by a check running side by side (hits refresh the mtime)
            if time.time() - os.path.getmtime(os.path.join(CACHE, f)) > 1800:
                os.remove(os.path.join(CACHE, f))
        dt = time.time() - t0
        _log(f"done in {dt:.0f}s: {hdr['n_bodies']} bodies, {hdr['n_focus']} with full facts")
        return out, th, dt
    finally:
        fcntl.flock(lockf, fcntl.LOCK_UN)
        lockf.close()


if __name__ == '__main__':
    cfgs = sys.argv[1:] or ['q']
    for c in cfgs:
        print(ensure_facts(c))
