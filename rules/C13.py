"""C13 - A subscriber eventually learns every change it subscribed to (structural clauses; liveness and timing not decided)."""
from common import (equality_tests, mentions, closure_in, async_body, closure_arg_sites, ok_return_bbs, call_bbs, named_local, src_calls,
                    src_fields, src_consts, bodies_of, result_used)
from facts import AnchorLost, op_place
import prims

EXPLANATION = """
Static structural rules over im/subscriptions.rs and im.rs:
(a) watermarks are committed on success only: in the reporter loop ReportContext::set_keep is reached only over the Ok(true)
edge of process_subscription, the Err edge always reaches set_keep_retry, and set_keep_retry re-assigns the next watermarks from
the subscription's current (last reported) values; in subscribe (priming) set_keep is cut by `primed == true` and by the success of
sending the SubscribeResponse; report_complete copies the context's next_* values into the subscription, and those are written
only by report()/add() (snapshot) and set_keep_retry (restore);
(b) the purge decision depends on in-flight subscriptions: ChangedAttrs::purge_up_to / clear are called only from
SubscriptionsInner::purge_reported_changes (and the table-wide clear), and that function's decision reads subscriptions_count or
the `reporting` slot - a subscription being primed or reported on is not in the table, so a purge that ignores it drops changes
before its watermark is committed (violated on the pinned tree: fixed by 4fa1ce3);
(c) coalescing keeps the newest id: in promote_largest_group the coarsened entry's change_id is a running maximum guarded by `>`
over the absorbed entries; promote_and_insert refreshes a covering entry with the new id;
(d) subscriptions whose fabric vanished or that expired are removed (shared with C07-d); is_expired depends on reported_at and
max_int_secs.
"""
CLAUSES = ['a: watermarks committed on success only; failures retried with the same content (restored from the last success and nothing else); a report that sent nothing does not restart the liveness clock; the reporting slot is vacated only by its own report', 'b: purge accounts for in-flight subscriptions', 'c: coalescing keeps the newest change id',
           'd: expired subscriptions removed', 'e: one report-due predicate; a report covers exactly the events it commits; table and request buffers compacted in step']
NOT_DECIDED = ['eventual delivery (liveness)', 'min/max interval timing', 'identical content of a retried report', 'restarts with persisted subscriptions']
MIN_OBLIGATIONS = {'q': 22, 'd': 22, 'r': 22}

SUB = 'im::subscriptions::'
RC = SUB + 'ReportContext'
IM = 'im::InteractionModel'


def check(R):
    F = R.facts
    # ---- a --------------------------------------------------------------------
    with R.clause('a'):
        co = async_body(R, IM + '::process_subscriptions')
        ps = co.calls(IM + '::process_subscription')
        R.floor('process_subscription in the reporter loop', len(ps), 1)
        keep = call_bbs(co, RC + '::set_keep')
        retry = call_bbs(co, RC + '::set_keep_retry')
        tr = prims.track_result(F, co, ps[0])
        inner = prims.track_result(F, co, ps[0], inner=1)
        R.cut('P2', co, 'commit the new watermarks (set_keep)', keep, 'process_subscription returned Ok', tr.success)
        R.cut('P2', co, 'commit the new watermarks (set_keep)', keep, 'process_subscription returned Ok(true)', inner.success)
        bad = prims.always_followed_by(co, [e[1] for e in tr.failure], retry, exits=set(co.ret_blocks()) | {ps[0].bb})
        # within one loop iteration: from the Err edge, the next process_subscription / return is not reached before set_keep_retry
        bad2 = []
        for (frm, to) in tr.failure:
            r = prims.reach(co, (to,), cut_blocks=set(retry))
            if ps[0].bb in r or set(co.ret_blocks()) & r:
                bad2.append(co.where(frm))
        R.expect('P3', co.fn, 'a failed report always ends in set_keep_retry (kept, watermarks not advanced)', bool(tr.failure) and not bad2, 'Err edge -> set_keep_retry',
                 f'the Err edge at {bad2} can reach the next iteration / return without set_keep_retry')
        skr = R.body(RC + '::set_keep_retry')
        for fld, src in (('next_max_seen_attr_change_id', 'max_seen_attr_change_id'), ('next_max_seen_event_number', 'max_seen_event_number'), ('next_reported_at', 'reported_at')):
            ws = [s for i, j, s in skr.field_writes(fld + ':' + RC)]
            vs_ = prims.sources(skr, ws[0][1]['a'][0]) if ws and ws[0][1].get('op') == 'use' else set()
            # restored from the last SUCCESSFUL report and from nothing else: in particular not from this attempt's own values
            # (the context's next_* fields - `next_reported_at` is "now"), on no path
            own = sorted(f for f in src_fields(vs_) if f.endswith(':' + RC))
            okw = len(ws) == 1 and mentions(vs_, src) and not own
            R.expect('P10', skr.fn, f'{fld} is restored from the subscription\'s last reported {src} and from nothing else', okw, f'{fld} <= sub.{src}',
                     f'{len(ws)} write(s); value sources include {own or "no " + src}: after a failed attempt the subscription no longer looks exactly as it did before it')
        sk = R.body(RC + '::set_keep')
        R.expect('P1', sk.fn, 'set_keep only sets the keep flag', sk.fw_summary <= {'keep:' + RC}, 'ok', f'writes {sorted(sk.fw_summary)}')
        for fld in ('next_max_seen_attr_change_id', 'next_max_seen_event_number'):
            R.writers_confined('P1', fld + ':' + RC, {RC + '::set_keep_retry', SUB + 'Subscriptions::report', SUB + 'Subscriptions::add', RC + '::update_max_seen_event_number',
                               SUB + 'Subscriptions::resume', SUB + 'Subscriptions::load_persist'}, min_sites=1)
        rcpl = R.body(SUB + 'Subscriptions::report_complete')
        for fld, src in (('max_seen_attr_change_id', 'next_max_seen_attr_change_id'), ('max_seen_event_number', 'next_max_seen_event_number')):
            ws = [s for i, j, s in rcpl.field_writes(fld + ':' + SUB + 'Subscription')]
            R.expect('P10', rcpl.fn, f'the committed {fld} is the context\'s {src}', len(ws) == 1 and mentions(prims.sources(rcpl, ws[0][1]['a'][0]), src), 'ok', f'{len(ws)} writes')
        # the in-flight bookkeeping (the `reporting` snapshot slot and a cancellation recorded against it) belongs to the report that
        # `report()` started: a priming report that completes meanwhile (started by `add()` on a responder task) must neither vacate the
        # slot nor consume the cancellation - both are cut by "the completing subscription is the one in the slot" (id equality)
        rci = R.body(SUB + 'SubscriptionsInner::report_complete')
        vac = sorted({i for i, j, st in rci.field_writes('reporting:' + SUB + 'SubscriptionsInner')} |
                     {t.bb for t in rci.calls('core::option::Option::take') if any(f.startswith('reporting_cancelled:') for f in src_fields(prims.sources(rci, t.d['a'][0])))})
        R.floor('vacating the reporting slot / taking its cancellation in report_complete', len(vac), 1)

        def same_sub():
            e = set()
            isid = lambda s_: any(f.startswith('id:') for f in src_fields(s_)) or any(x[0] == 'upvar' and x[1].split('.')[-1] == 'id' for x in s_)
            for (bb, neg, sa_, sb_, te_, fe_) in equality_tests(F, rci):
                if isid(sa_) and isid(sb_):
                    e |= te_
            for t in rci.calls():
                if not any(n.endswith(('Option::is_some_and', 'Option::map_or', 'Option::is_none_or')) for n in t.callee_names()):
                    continue
                clos = [x[1] for a in t.d['a'] for x in prims.sources(rci, a) if x[0] == 'closure']
                for c_ in clos:
                    cb_ = F.bodies.get(c_)
                    if cb_ is not None and any(isid(sa_) and isid(sb_) for (bb, neg, sa_, sb_, te_, fe_) in equality_tests(F, cb_)):
                        e |= prims.track_result(F, rci, t).success
            if not e:
                from facts import GuardMissing
                raise GuardMissing(f'{rci.fn}: the completing subscription is not compared with the one in the reporting slot')
            return e
        R.cut('P2', rci, 'vacate the reporting slot / consume its cancellation', vac, 'the completing subscription is the one the slot was filled for (ids equal)', same_sub)
        # a report that found nothing to say SENDS nothing - the subscriber did not hear from us, so its max-interval (liveness) clock must
        # not be restarted: (1) ReportDataResponder::respond's answer for "nothing was sent" differs from "sent and accepted", (2) on that
        # answer the reporter restores next_reported_at from the subscription's last real report before it keeps the subscription.
        # (Otherwise every unrelated attribute change on the node postpones the liveness report by another max_int / 2 - for ever, if such
        # changes keep coming - and the subscriber times the subscription out.)
        rsp = async_body(R, 'im::ReportDataResponder::respond')
        sends = rsp.calls('im::ReportDataResponder::send')
        R.floor('send(..) in ReportDataResponder::respond', len(sends), 1)
        sent_vals, unsent_vals = set(), set()
        for bb_, k_, pl_ in prims.result_defs(rsp):
            if k_ != 'agg' or pl_.get('var') != 'Ok' or not pl_.get('a'):
                continue
            a_ = pl_['a'][0]
            ss_ = prims.sources(rsp, a_)
            toks = {f"{x[1].split('::')[-1]}::{x[2]}" for x in ss_ if x[0] == 'agg' and x[1].endswith('RespondOutcome')} | {('true' if c_ else 'false') for c_ in src_consts(ss_) if c_ in (0, 1) and a_.get('k', {}).get('ty') == 'bool'}
            if a_.get('k', {}).get('ty') == 'bool':
                toks = {'true' if a_['k'].get('v') else 'false'}
            # "sent" = the value is produced after a send on every path (it may be chosen by a branch on send's result)
            after_send = not prims.precedes(rsp, [t_.bb for t_ in sends], [bb_]) or 'im::ReportDataResponder::send' in src_calls(ss_)
            (sent_vals if after_send else unsent_vals).update(toks or {'<the value of send()>'})
        for t_ in sends:
            # `self.send(..).await` in tail position: the result IS send's result
            if any(k_ == 'call' and bb_ == t_.bb for bb_, k_, pl_ in prims.result_defs(rsp)):
                sent_vals.add('<the value of send()>')
        accepted_like = {v for v in unsent_vals if v in ('true', 'RespondOutcome::Accepted')}
        R.expect('P5', rsp.fn, 'the answer for "nothing was sent" differs from the answer for "sent and accepted"', bool(unsent_vals) and not accepted_like,
                 f'not sent: {sorted(unsent_vals)}; sent: {sorted(sent_vals)}', f'a path that sends nothing answers {sorted(accepted_like)} - the same as a report that was sent and accepted: the caller commits reported_at = now for a report '
                 'the subscriber never got')
        rd = async_body(R, IM + '::report_data')
        restorers = sorted(n_ for n_, b_ in F.bodies.items() if b_.focus and n_.startswith(RC + '::') and
                           any(st[1].get('a') and src_fields(prims.sources(b_, st[1]['a'][0])) and all(f.startswith(('reported_at:', 'subscription:')) for f in src_fields(prims.sources(b_, st[1]['a'][0])))
                               for i, j, st in b_.field_writes('next_reported_at:' + RC)))
        rcalls = [t_.bb for t_ in rd.calls(*restorers)] if restorers else []
        R.expect('P3', rd.fn, 'after a report that sent nothing the reporter restores next_reported_at from the last report the subscriber really received', bool(rcalls),
                 f'{[r.split("::")[-1] for r in restorers]} called in report_data', 'no function restores ReportContext.next_reported_at from Subscription.reported_at on the nothing-sent answer')
        if rcalls:
            emp, _o = prims.enum_local_edges(F, rd, lambda pl: True, 'im::RespondOutcome', ['Empty'])
            R.cut('P2', rd, 'keep the last-report timestamp (restore next_reported_at)', rcalls, 'respond answered "nothing was sent"', emp)
        sb = async_body(R, IM + '::subscribe')
        keep = call_bbs(sb, RC + '::set_keep')
        pr = named_local(sb, 'primed')
        te = set()
        for l in pr:
            te |= prims.bool_local_edges(sb, l)[0]
        R.cut('P2', sb, 'commit the priming watermarks (set_keep)', keep, 'primed == true', te)
        sends = sb.calls('transport::exchange::Exchange::send_with')
        R.floor('send_with(SubscribeResponse) in subscribe', len(sends), 1)
        R.cut('P2', sb, 'commit the priming watermarks (set_keep)', keep, 'the SubscribeResponse was sent', lambda: R.call_guard(sb, 'transport::exchange::Exchange::send_with'))
        rep = sb.calls(IM + '::report_data')
        R.floor('report_data in subscribe', len(rep), 1)
        s = set()
        for l in pr:
            s |= prims.sources(sb, l)
        R.expect('P10', sb.fn, '`primed` is the outcome of the priming report', any(x[0] == 'call' and x[1] == IM + '::report_data' for x in s) and not [c for c in src_consts(s) if c is not None], 'primed <= report_data(..)', f'{sorted(map(str, s))[:5]}')
        # the snapshot is taken at report start
        for fn in (SUB + 'Subscriptions::report', SUB + 'Subscriptions::add'):
            bs = bodies_of(F, fn)
            R.expect('P10', fn, 'the next attribute watermark is snapshotted from ChangedAttrs::watermark at report start', any(SUB + 'ChangedAttrs::watermark' in b.calls_summary for b in bs) or
                     any(SUB + 'SubscriptionsInner::add' in b.calls_summary for b in bs), 'changed_attrs.watermark()', 'no snapshot')

    # ---- b --------------------------------------------------------------------
    with R.clause('b'):
        INNER = SUB + 'SubscriptionsInner'
        R.callers_confined('P1', SUB + 'ChangedAttrs::purge_up_to', {INNER + '::purge_reported_changes'})
        R.callers_confined('P1', SUB + 'ChangedAttrs::clear', {INNER + '::purge_reported_changes', INNER + '::clear', SUB + 'Subscriptions::clear'})
        pg = R.body(INNER + '::purge_reported_changes')
        ok1, why1 = prims.field_influences_result(pg, 'subscriptions_count:' + INNER)
        ok2, why2 = prims.field_influences_result(pg, 'reporting:' + INNER)
        if not (ok1 or ok2):
            R.fail('P9', pg.fn, 'the purge decision depends on in-flight (priming / reporting) subscriptions',
                   'purge_reported_changes reads neither subscriptions_count nor the reporting slot: a subscription that is being primed or reported on is not in the table, so '
                   'changes recorded after its report started are purged (the whole list is cleared when the table is otherwise empty) before its watermark is committed',
                   f'{pg.file}:{pg.line}', key='P9|' + pg.fn + '|purge ignores in-flight subscriptions')
        else:
            R.ok('P9', pg.fn, 'the purge decision depends on in-flight (priming / reporting) subscriptions', why1 if ok1 else why2)
            # the purge is skipped when somebody is in flight: purge calls cut by the "all in table" edge
            acts = [t.bb for t in pg.calls(SUB + 'ChangedAttrs::purge_up_to', SUB + 'ChangedAttrs::clear')]
            R.floor('purge actions', len(acts), 2)

            def all_in_table():
                e = set()
                for op, edge in (('Ne', 'f'), ('Eq', 't'), ('Lt', 'f'), ('Gt', 'f')):
                    for bb, te_, fe_ in prims.cmp_guard_edges(pg, op, lambda s: mentions(s, 'subscriptions_count'), lambda s: any(c.endswith('::len') for c in src_calls(s))):
                        e |= (te_ if edge == 't' else fe_)
                # NOT sufficient on its own: `reporting.is_none()` - a subscription whose PRIMING is in flight lives in the ReportContext held
                # by InteractionModel::subscribe, neither in the table nor in `reporting`; only the counter accounts for both
                if not e:
                    from facts import GuardMissing
                    raise GuardMissing(f'{pg.fn}: no comparison of subscriptions_count with the table length')
                return e
            R.cut('P2', pg, 'purge / clear the recorded changes', acts, 'no subscription is outside the table - neither being reported on nor being primed (subscriptions_count == subscriptions.len())', all_in_table)
        mins = [t for t in pg.calls() if t.d.get('f', '').endswith('Iterator::min')]
        R.expect('P10', pg.fn, 'the purge threshold is the minimum watermark of the table', len(mins) == 1, 'min()', f'{len(mins)} min() calls')
        mc = [b for b in F.nested(pg.fn) if prims.field_read_locals(b, 'max_seen_attr_change_id:' + SUB + 'Subscription')]
        R.expect('P10', pg.fn, 'the minimum is taken over max_seen_attr_change_id', len(mc) >= 1, 'ok', 'other field')
        pu = R.body(SUB + 'ChangedAttrs::purge_up_to')
        le = [c for c in prims.compare_sites(pu, ops=('Le', 'Lt', 'Ge', 'Gt')) if mentions(prims.sources(pu, c[3]) | prims.sources(pu, c[4]), 'change_id')]
        R.expect('P10', pu.fn, 'only entries at or below the threshold are purged', len(le) == 1 and ((le[0][2] == 'Le' and mentions(prims.sources(pu, le[0][3]), 'change_id')) or (le[0][2] == 'Ge' and mentions(prims.sources(pu, le[0][4]), 'change_id'))),
                 'change_id <= threshold', f'{[c[2] for c in le]}')

    # ---- c --------------------------------------------------------------------
    with R.clause('c'):
        pl = R.body(SUB + 'ChangedAttrs::promote_largest_group')
        mx = named_local(pl, 'max_change_id')
        gts = [c for c in prims.compare_sites(pl, ops=('Gt', 'Lt', 'Ge', 'Le')) if mentions(prims.sources(pl, c[3]) | prims.sources(pl, c[4]), 'change_id')]
        okg = False
        for (bb, j, op, a1, a2, d) in gts:
            l_is_entry = mentions(prims.sources(pl, a1), 'change_id')
            r_is_max = any(l in mx for l in _locals(pl, a2))
            l_is_max = any(l in mx for l in _locals(pl, a1))
            r_is_entry = mentions(prims.sources(pl, a2), 'change_id')
            if (op in ('Gt', 'Ge') and l_is_entry and r_is_max) or (op in ('Lt', 'Le') and l_is_max and r_is_entry):
                # the assignment max = entry.change_id sits on the true edge
                te, fe = prims.bool_local_edges(pl, d)
                asg = [i for i, j2, s in pl.stmts() if len(s[0]) == 1 and s[0][0] in mx and s[1].get('op') == 'use' and op_place(s[1]['a'][0]) and mentions(prims.sources(pl, s[1]['a'][0]), 'change_id')]
                if asg and not (set(asg) & prims.reach(pl, (0,), cut_edges=te)):
                    okg = True
        viamax = any(c.endswith('::max') for c in pl.calls_summary)
        R.expect('P10', pl.fn, 'the coarsened entry keeps the maximum change id of the entries it absorbs', okg or viamax, 'running maximum guarded by >', 'the running maximum is not guarded by a > comparison against the entry id')
        ws = [s for i, j, s in pl.field_writes('change_id:' + SUB + 'ChangedAttr')]
        R.expect('P10', pl.fn, 'the coarsened entry\'s change_id is assigned from the running maximum', any(any(l in mx for l in _locals(pl, s[1]['a'][0])) for s in ws if s[1].get('op') == 'use'), 'coarsened.change_id = max_change_id', 'not from max_change_id')
        pi = R.body(SUB + 'ChangedAttrs::promote_and_insert')
        ws = [s for i, j, s in pi.field_writes('change_id:' + SUB + 'ChangedAttr')]
        R.expect('P10', pi.fn, 'a covering entry is refreshed with the new change id', any(mentions(prims.sources(pi, s[1]['a'][0]), 'change_id') and ('arg', 2) in prims.sources(pi, s[1]['a'][0]) for s in ws if s[1].get('op') == 'use'), 'existing.change_id = new.change_id', 'no refresh')
        rr = R.body(SUB + 'ChangedAttrs::record_raw')
        R.expect('P10', rr.fn, 'every recorded change gets a fresh, increasing id', bool(rr.field_writes('next_change_id:' + SUB + 'ChangedAttrs')), 'next_change_id advanced', 'next_change_id not advanced')

    # ---- d --------------------------------------------------------------------
    with R.clause('d'):
        ie = bodies_of(F, SUB + 'Subscription::is_expired')
        for fld in ('reported_at', 'max_int_secs'):
            R.expect('P9', SUB + 'Subscription::is_expired', f'expiry depends on {fld}', any(prims.field_influences_result(b, fld + ':' + SUB + 'Subscription')[0] for b in ie), 'ok', f'{fld} not read')
        outer = closure_in(R, IM + '::process_subscriptions', ['Subscription::is_expired'])
        t = outer.calls(SUB + 'Subscription::is_expired')[0]
        somes = [bb for bb, k, p in prims.result_defs(outer) if k == 'agg' and p.get('var') == 'Some']
        tr = prims.track_result(F, outer, t)
        bad = [outer.where(f) for (f, to) in tr.success if set(outer.ret_blocks()) & prims.reach(outer, (to,), cut_blocks=set(somes))]
        R.expect('P3', outer.fn, 'an expired subscription always gets a removal verdict', bool(tr.success) and not bad, 'is_expired -> Some("expired")', f'{bad}')

    # ---- e --------------------------------------------------------------------
    with R.clause('e'):
        # one "is a report due" predicate: the reporter selects a subscription (and arms its timer) with Subscription::is_report_due /
        # report_due_at; whether an EMPTY report goes out as the liveness report is decided by the same predicate - a private
        # comparison that disagrees at the boundary restarts the liveness clock without anything on the wire
        se = R.body(RC + '::should_send_if_empty')
        rd_ = prims.result_defs(se)
        R.expect('P5', se.fn, 'the liveness decision is Subscription::is_report_due itself (the predicate the reporter selects with)',
                 bool(rd_) and all(k == 'call' and (pl_.get('r') or pl_.get('f')) == SUB + 'Subscription::is_report_due' for bb, k, pl_ in rd_),
                 'is_report_due(next_reported_at)', f'the result is computed by {[(k, pl_.get("f") if isinstance(pl_, dict) else pl_) for bb, k, pl_ in rd_][:3]}: not the shared predicate')
        event_range_rule(R)
        # subscriptions and their subscribe-request buffers are two vectors paired by index: whatever removes an entry from one removes the
        # entry of the same index from the other with the SAME operation (swap_remove moves the last element into the hole, retain / remove
        # shift - mixing them pairs the survivors with each other's requests)
        rm = [b for b in bodies_of(F, SUB + 'Subscriptions::remove')]
        ops_sub, ops_buf = set(), set()
        for b in rm:
            for t in b.calls():
                f_ = t.d.get('f', '')
                if not f_.endswith(('::swap_remove', '::remove', '::retain', '::retain_mut', '::truncate', '::pop', '::drain')):
                    continue
                s_ = prims.sources(b, t.d['a'][0])
                if any(f.startswith('subscriptions:') for f in src_fields(s_)):
                    ops_sub.add(f_.split('::')[-1])
                else:
                    ops_buf.add(f_.split('::')[-1])
        R.floor('removal operations in Subscriptions::remove', len(ops_sub | ops_buf), 1)
        R.expect('P5', SUB + 'Subscriptions::remove', 'the subscription table and the parallel request-buffer vector are compacted by the same operation', ops_sub == ops_buf and len(ops_sub) == 1,
                 f'{sorted(ops_sub)} on both', f'subscriptions: {sorted(ops_sub)}, buffers: {sorted(ops_buf)} - the two vectors fall out of step: a surviving subscription reports on another subscriber\'s paths')



def _locals(body, operand):
    out = set()
    p = op_place(operand)
    if not p:
        return out
    work = [p[0]]
    while work:
        l = work.pop()
        if l in out:
            continue
        out.add(l)
        for (bb, i, kind, payload) in body.defs.get(l, ()):
            if kind == 'assign' and payload[1].get('op') in ('use', 'cast'):
                q = op_place(payload[1]['a'][0])
                if q:
                    work.append(q[0])
    return out

def event_range_rule(R):
    F = R.facts
    # a subscription report covers exactly the events up to the watermark it will commit: in InteractionModel::report_data every
    # EventReader is bounded by the context's (max_seen_event_number, next_max_seen_event_number] - never by constants (an event
    # emitted while a chunked priming is under way would be sent now and again with the first regular report)
    rpd = async_body(R, IM + '::report_data')
    ers = rpd.calls('im::events::EventReader::new')
    R.floor('EventReader::new in report_data', len(ers), 1)
    for n_, t in enumerate(ers):
        lo, hi = prims.sources(rpd, t.d['a'][0]), prims.sources(rpd, t.d['a'][1])
        R.expect('P10', rpd.fn, f'event range #{n_ + 1} of a subscription report is (max_seen_event_number, next_max_seen_event_number] of its context',
                 RC + '::max_seen_event_number' in src_calls(lo) and RC + '::next_max_seen_event_number' in src_calls(hi) and not [c for c in src_consts(lo | hi) if c is not None],
                 'EventReader::new(rctx.max_seen_event_number(), rctx.next_max_seen_event_number(), ..)',
                 f'bounds derive from {sorted(src_calls(lo))[:2]} / {sorted(src_calls(hi))[:2]} and constants {sorted(str(c) for c in src_consts(lo | hi) if c is not None)[:3]}', rpd.where(t.bb))
