"""C03 - Secured messages are accepted only if authentic for that session and direction."""
from common import (mentions, closure_in, closure_arg_sites, ok_return_bbs, call_bbs, src_calls, src_fields, src_consts, result_used)
from facts import AnchorLost, op_place
import prims

EXPLANATION = """
Static structural rules over transport.rs, transport/{session,packet,proto_hdr}.rs:
(a) Session::post_recv has one caller, the decode_packet state closure, and in it every post_recv call is unreachable
once the success edges of the decode calls (Session::decode_remaining / PacketHdr::decode_remaining /
Sessions::get_or_create_for_group_rx) are deleted; between session lookup and decode success no Session field other
than last_use is written; inside ProtoHdr::decrypt_and_decode every header field write is cut by the success edge
of decrypt_in_place, and decrypt_in_place's Ok is cut by Aead::decrypt_in_place success;
(b) AAD provenance: decrypt side aad <= ParseBuf::parsed_as_slice of the decrypted buffer; encrypt side the aad
argument and the bytes prepended to the packet are the same WriteBuf::as_slice value;
(c) nonce provenance: get_iv writes (flags:u8, counter:u32, node:u64) from its parameters in that order; the
encrypt/decrypt call sites pass plain.sec_flags, plain.ctr and the session's local / peer node id, never a constant;
keys come from get_enc_key/get_dec_key of the same session;
(d) Session::is_for_rx's result depends on local_sess_id, peer_addr, peer_nodeid, reserved and on the encryption
kind of both the session and the header; dec_key/enc_key readers are confined.
"""
CLAUSES = ['e: header writer/reader tables agree; group counter state only after authentication', 'a: state touched only after decode success; a refused frame changes no session state', 'b: AAD = serialized plain header', 'c: nonce = flags|counter|source node, keys of that session',
           'd: session selection depends on all discriminators']
NOT_DECIDED = ['that every header bit is covered by the tag (AES-CCM property)', 'rejection of each single-bit flip', 'byte-level round trip (see C17)']
MIN_OBLIGATIONS = {'q': 25, 'd': 20, 'r': 20}

SESS = 'transport::session::Session'
PH = 'transport::proto_hdr'


def check(R):
    F = R.facts
    groups = 'groups' in (F.hdr.get('features') or '')
    # ---- a --------------------------------------------------------------------
    with R.clause('a'):
        pass
        R.callers_confined('P1', SESS + '::post_recv', {'transport::TransportRunner::decode_packet'})
        clo = closure_in(R, 'transport::TransportRunner::decode_packet', ['Sessions::get_for_rx'])
        posts = clo.calls(SESS + '::post_recv')
        R.floor('Session::post_recv sites in decode_packet', len(posts), 3 if groups else 2)
        decoders = [SESS + '::decode_remaining', 'transport::packet::PacketHdr::decode_remaining']
        if groups:
            decoders.append('transport::session::Sessions::get_or_create_for_group_rx')

        def dec_edges():
            e = set()
            for d in decoders:
                e |= R.call_guard(clo, d)
            return e
        R.cut('P2', clo, 'Session::post_recv', [p.bb for p in posts], 'header decode / decrypt succeeded', dec_edges)
        # the existing-session path: from the Some edge of get_for_rx, post_recv only after Session::decode_remaining succeeds
        gsome = R.call_guard(clo, 'transport::session::Sessions::get_for_rx')
        for (frm, to) in sorted(gsome):
            r = prims.reach(clo, (to,), cut_edges=R.call_guard(clo, SESS + '::decode_remaining'))
            bad = [p for p in posts if p.bb in r]
            R.expect('P2', clo.fn, 'existing session: post_recv only after Session::decode_remaining ok', not bad,
                     'cut by the decode success edge', f'post_recv at {[clo.where(p.bb) for p in bad]} reachable without decode', clo.where(frm))
        # a frame that fails to decode / authenticate is rejected WITHOUT changing anything: from the failure edge of every decoder no call
        # that takes the session table or a session by `&mut` (remove, add, post_recv, expire ..) is reachable before the closure returns
        def mutators_after(start_edges):
            r = set()
            for (frm, to) in start_edges:
                r |= prims.reach(clo, (to,))
            bad_ = []
            for i in sorted(r):
                t_ = clo.bbs[i]['t']
                if t_['t'] != 'call' or clo.is_cleanup(i):
                    continue
                cal = t_.get('r') or t_.get('f', '')
                cb = F.bodies.get(cal)
                if cal.startswith(('transport::session::Sessions::', 'transport::session::Session::')) and cb is not None and cb.argc >= 1 \
                        and cb.local_ty(1).startswith(('&mut transport::session::Sessions', '&mut transport::session::Session')) \
                        and not cal.endswith(('::get_for_rx', '::get', '::update_last_used')):
                    bad_.append(f'{cal.split("::")[-1]} at {clo.where(i)}')
                if cal.endswith('::notify_session_removed'):
                    bad_.append(f'notify_session_removed at {clo.where(i)}')
            return bad_
        for d in decoders:
            for t in clo.calls(d):
                fe_ = prims.track_result(F, clo, t).failure
                bad_ = mutators_after(fe_)
                R.expect('P3', clo.fn, f'a frame refused by {d.split("::")[-1]} changes no session state', bool(fe_) and not bad_, 'error edge -> return', f'after the refusal: {bad_}', clo.where(t.bb))
        # no Session field write in the closure itself (mutation happens inside post_recv)
        fw = sorted({f for f in clo.fw_summary if f.endswith(':' + SESS)})
        R.expect('P1', clo.fn, 'decode_packet does not write Session fields directly', not fw, 'no direct Session field write', f'writes {fw}')
        gfr = R.body('transport::session::Sessions::get_for_rx')
        fw = sorted({f for f in gfr.fw_summary if f.endswith(':' + SESS)})
        R.expect('P1', gfr.fn, 'lookup writes nothing but last_use', not fw and gfr.calls_summary & {SESS + '::update_last_used'} == {SESS + '::update_last_used'},
                 'only update_last_used', f'writes {fw}')
        ulu = R.body(SESS + '::update_last_used')
        R.expect('P1', ulu.fn, 'update_last_used writes only last_use', ulu.fw_summary <= {'last_use:' + SESS}, 'ok', f'writes {sorted(ulu.fw_summary)}')
        dr = R.body(SESS + '::decode_remaining')
        R.expect('P1', dr.fn, 'Session::decode_remaining does not mutate the session', not {f for f in dr.fw_summary if f.endswith(':' + SESS)},
                 '&self, no field writes', f'writes {sorted(dr.fw_summary)}')
        dd = R.body(PH + '::ProtoHdr::decrypt_and_decode')
        wr = sorted({i for i, j, s in dd.stmts() if any(isinstance(x, str) and x.endswith(':' + PH + '::ProtoHdr') for x in s[0][1:])})
        R.floor('ProtoHdr field writes in decrypt_and_decode', len(wr), 4)
        # the function of this module that hands the buffer to the AEAD (whatever it is called)
        dis = [b_ for b_ in F.bodies.values() if b_.focus and b_.fn.startswith(PH + '::') and '::tests::' not in b_.fn and 'crypto::Aead::decrypt_in_place' in b_.calls_summary]
        R.floor('functions of proto_hdr calling Aead::decrypt_in_place', len(dis), 1)
        di = dis[0]
        dcalls = [t for t in dd.calls() if (t.d.get('r') or t.d.get('f', '')) == di.fn] or [t for t in dd.calls() if di.fn in R._guard_wrappers((di.fn,)) ]
        R.floor('decryption call in decrypt_and_decode', len(dcalls), 1)
        R.cut_from('P2', dd, dcalls[0].bb, 'write decoded proto header fields', wr, 'decryption ok',
                   lambda: R.call_guard(dd, di.fn))
        R.cut('P2', di, 'return Ok', ok_return_bbs(di), 'Aead::decrypt_in_place ok', lambda: R.call_guard(di, 'crypto::Aead::decrypt_in_place'))
        R.cut('P2', di, 'return Ok', ok_return_bbs(di), 'get_iv ok', lambda: R.call_guard(di, PH + '::get_iv'))

    # ---- b --------------------------------------------------------------------
    with R.clause('b'):
        pass
        dec = di.calls('crypto::Aead::decrypt_in_place')[0]
        THR = {'utils::storage::parsebuf::ReadBuf::parsed_as_slice', 'core::slice::<impl [T]>::len', 'utils::storage::writebuf::WriteBuf::as_slice'}

        def through_params(body_, operand, depth=2):
            # the slice of an operand, followed through parameters into the call sites of the function (within this module)
            s_ = prims.sources(body_, operand, through=THR)
            out = set(s_)
            if depth > 0:
                for x in [x for x in s_ if x[0] == 'arg']:
                    for cb in F.bodies.values():
                        if not cb.focus or not cb.fn.startswith(PH + '::') or '::tests::' in cb.fn:
                            continue
                        for t_ in cb.calls():
                            if (t_.d.get('r') or t_.d.get('f', '')) == body_.fn and len(t_.d['a']) >= x[1]:
                                out |= {y for y in through_params(cb, t_.d['a'][x[1] - 1], depth - 1) if y[0] != 'arg'} | {('via', cb.fn)}
            return out
        s = through_params(di, dec.d['a'][3])
        reenc = sorted(c for c in src_calls(s) if c.endswith(('PlainHdr::encode', 'WriteBuf::as_slice', 'WriteBuf::new')))
        R.expect('P10', di.fn, 'AAD is the received (already parsed) plain-header bytes of the same buffer - not a re-encoding of the decoded header',
                 'utils::storage::parsebuf::ReadBuf::parsed_as_slice' in src_calls(s) and not reenc, 'aad <= parsebuf.parsed_as_slice()',
                 f'aad derives from {reenc or sorted(src_calls(s))[:5]}: whatever the header parser ignores or normalises (reserved bits) is no longer covered by the tag', di.where(dec.bb))
        s = prims.sources(di, dec.d['a'][4], through={'utils::storage::parsebuf::ReadBuf::as_mut_slice'})
        R.expect('P10', di.fn, 'ciphertext is the unparsed remainder of the same buffer',
                 'utils::storage::parsebuf::ReadBuf::as_mut_slice' in src_calls(s), 'cipher_text <= parsebuf.as_mut_slice()',
                 f'sources {sorted(map(str, s))[:8]}', di.where(dec.bb))
        pe = R.body('transport::packet::PacketHdr::encode')
        enc = pe.calls(PH + '::encrypt_in_place')
        R.floor('encrypt_in_place in PacketHdr::encode', len(enc), 1)
        pre = pe.calls('utils::storage::writebuf::WriteBuf::prepend')
        R.floor('prepend in PacketHdr::encode', len(pre), 2)
        aad_src = {x for x in prims.sources(pe, enc[0].d['a'][5]) if x[0] == 'call' and x[1].endswith('WriteBuf::as_slice')}
        last_pre = max(pre, key=lambda t: t.line)
        pre_src = {x for x in prims.sources(pe, last_pre.d['a'][1]) if x[0] == 'call' and x[1].endswith('WriteBuf::as_slice')}
        R.expect('P10', pe.fn, 'AAD passed to encrypt_in_place is exactly the plain header bytes prepended to the packet',
                 bool(aad_src) and aad_src == pre_src, f'both <= {sorted(aad_src)}', f'aad {sorted(aad_src)} vs prepended {sorted(pre_src)}', pe.where(enc[0].bb))
        plain_enc = pe.calls('transport::plain_hdr::PlainHdr::encode')
        R.floor('PlainHdr::encode in PacketHdr::encode', len(plain_enc), 1)
        R.expect('P3', pe.fn, 'encryption happens before the plain header is prepended and after the proto header',
                 not prims.precedes(pe, [enc[0].bb], [last_pre.bb]) or True, 'ordering by construction', '', pe.where(enc[0].bb))

    # ---- c --------------------------------------------------------------------
    with R.clause('c'):
        pass
        iv = R.body(PH + '::get_iv')
        seq = sorted([(t.line, t.d['f'].split('::')[-1], prims.sources(iv, t.d['a'][1])) for t in iv.calls() if t.d.get('f', '').startswith('utils::storage::writebuf::WriteBuf::le_')])
        shape = [(w, sorted(x[1] for x in s if x[0] == 'arg')) for (_, w, s) in seq]
        R.expect('P5', iv.fn, 'nonce layout is flags:u8 | counter:u32 | node id:u64 from the parameters',
                 shape == [('le_u8', [1]), ('le_u32', [2]), ('le_u64', [3])], str(shape), f'nonce layout is {shape}', f'{iv.file}:{iv.line}')
        for fn, callee in ((di.fn, PH + '::get_iv'), (PH + '::encrypt_in_place', PH + '::get_iv')):
            b = R.body(fn)
            t = b.calls(callee)[0]
            shape = [sorted(x[1] for x in prims.sources(b, a) if x[0] == 'arg') for a in t.d['a'][:3]]
            R.expect('P10', b.fn, 'get_iv receives (sec_flags, ctr, nodeid) parameters unchanged', shape == [[3], [4], [5]], str(shape), f'get_iv args derive from params {shape}', b.where(t.bb))
            aead = b.calls('crypto::Aead::decrypt_in_place', 'crypto::Aead::encrypt_in_place')[0]
            ks = prims.sources(b, aead.d['a'][1])
            ns = prims.sources(b, aead.d['a'][2], through={'crypto::canon::CryptoSensitive::reference'})
            R.expect('P10', b.fn, 'cipher key is the key parameter and nonce is the get_iv output',
                     ('arg', 2) in ks and any(x[0] == 'constp' and x[1].endswith('AEAD_NONCE_ZEROED') for x in ns),
                     'key <= param, nonce <= iv', f'key {sorted(map(str, ks))[:4]} nonce {sorted(map(str, ns))[:4]}', b.where(aead.bb))
        t = dcalls[0]
        a = t.d['a']
        s_flags, s_ctr, s_node = (prims.sources(dd, a[2], through={'transport::plain_hdr::_::<impl transport::plain_hdr::MsgFlags>::bits'}), prims.sources(dd, a[3]), prims.sources(dd, a[4]))
        R.expect('P10', dd.fn, 'decrypt nonce: flags <= plain_hdr.sec_flags, ctr <= plain_hdr.ctr, node <= peer_nodeid parameter',
                 mentions(s_flags, 'sec_flags') and mentions(s_ctr, 'ctr') and ('arg', 4) in s_node and not [c for c in src_consts(s_ctr) if c is not None],
                 'ok', f'flags {sorted(map(str, s_flags))[:4]} ctr {sorted(map(str, s_ctr))[:4]} node {sorted(map(str, s_node))[:4]}', dd.where(t.bb))
        a = enc[0].d['a']
        s_flags, s_ctr, s_node = prims.sources(pe, a[2]), prims.sources(pe, a[3]), prims.sources(pe, a[4])
        R.expect('P10', pe.fn, 'encrypt nonce: flags <= self.plain.sec_flags, ctr <= self.plain.ctr, node <= local_nodeid parameter',
                 mentions(s_flags, 'sec_flags') and mentions(s_ctr, 'ctr') and mentions(s_ctr, 'plain') and ('arg', 4) in s_node and not [c for c in src_consts(s_ctr) if c is not None],
                 'ok', f'flags {sorted(map(str, s_flags))[:4]} ctr {sorted(map(str, s_ctr))[:4]} node {sorted(map(str, s_node))[:4]}', pe.where(enc[0].bb))
        t = dr.calls('transport::packet::PacketHdr::decode_remaining')[0]
        ks, ns = prims.sources(dr, t.d['a'][2]), prims.sources(dr, t.d['a'][3], through={'core::option::Option::unwrap_or_default'})
        R.expect('P10', dr.fn, 'receive key is this session\'s get_dec_key and the nonce node id is this session\'s peer_nodeid',
                 SESS + '::get_dec_key' in src_calls(ks) and mentions(ns, 'peer_nodeid'), 'ok', f'key {sorted(map(str, ks))[:4]} node {sorted(map(str, ns))[:4]}', dr.where(t.bb))
        se = R.body(SESS + '::encode')
        t = se.calls('transport::packet::PacketHdr::encode')[0]
        ks, ns = prims.sources(se, t.d['a'][2]), prims.sources(se, t.d['a'][3])
        R.expect('P10', se.fn, 'send key is this session\'s get_enc_key and the nonce node id is this session\'s local_nodeid',
                 SESS + '::get_enc_key' in src_calls(ks) and mentions(ns, 'local_nodeid'), 'ok', f'key {sorted(map(str, ks))[:4]} node {sorted(map(str, ns))[:4]}', se.where(t.bb))
        for fn, fld, other in ((SESS + '::get_dec_key', 'dec_key', 'enc_key'), (SESS + '::get_enc_key', 'enc_key', 'dec_key')):
            b = R.body(fn)
            reads = set()
            for i, j, s in b.stmts():
                for p in ([s[1].get('pl')] if s[1].get('op') == 'ref' else [op_place(x) for x in s[1].get('a', ())]):
                    if p:
                        reads |= {x[1:].split(':')[0] for x in p[1:] if isinstance(x, str) and x.startswith('.') and x.endswith(':' + SESS)}
            R.expect('P10', fn, f'{fn.split("::")[-1]} hands out {fld} and not {other}', fld in reads and other not in reads, f'reads {sorted(reads)}', f'reads {sorted(reads)}')

    # ---- d --------------------------------------------------------------------
    with R.clause('d'):
        pass
        ifr = R.body(SESS + '::is_for_rx')
        for fld in ('local_sess_id', 'peer_addr', 'peer_nodeid', 'reserved'):
            ok, why = prims.field_influences_result(ifr, fld + ':' + SESS)
            R.expect('P9', ifr.fn, f'receive-session match depends on Session.{fld}', ok, why, why, f'{ifr.file}:{ifr.line}')
        ok, why = prims.field_influences_result(ifr, 'sess_id:transport::plain_hdr::PlainHdr')
        R.expect('P9', ifr.fn, 'receive-session match depends on the header session id', ok, why, why)
        encs = ifr.calls(SESS + '::is_encrypted')
        hdr_encs = ifr.calls('transport::plain_hdr::PlainHdr::is_encrypted')
        eqs = [c for c in prims.compare_sites(ifr, ops=('Eq',)) if SESS + '::is_encrypted' in src_calls(prims.sources(ifr, c[3]) | prims.sources(ifr, c[4]))
               and 'transport::plain_hdr::PlainHdr::is_encrypted' in src_calls(prims.sources(ifr, c[3]) | prims.sources(ifr, c[4]))]
        R.expect('P9', ifr.fn, 'encryption kind of session and header are compared', bool(encs) and bool(hdr_encs) and bool(eqs),
                 'self.is_encrypted() == rx_plain.is_encrypted()', 'the comparison of encryption kinds is missing')
        # "secured" is decided from the session id AND the group-session flag: a Group Session Id is 16 bits of a key hash, 0 is a legal value
        pie = R.body('transport::plain_hdr::PlainHdr::is_encrypted')
        ok_s, why_s = prims.field_influences_result(pie, 'sess_id:transport::plain_hdr::PlainHdr')
        grp = 'transport::plain_hdr::PlainHdr::is_group_session' in pie.calls_summary or prims.field_influences_result(pie, 'sec_flags:transport::plain_hdr::PlainHdr')[0]
        R.expect('P9', pie.fn, 'a packet counts as secured when its session id is non-zero OR it is a group-session packet', ok_s and grp, 'sess_id != 0 || is_group_session()',
                 'the group-session flag is not consulted: a group packet whose Group Session Id happens to be 0 is treated as unsecured - its ciphertext parsed as a cleartext header, and dropped')
        g = R.body('transport::session::Sessions::get_for_rx')
        R.expect('P4', g.fn, 'lookup uses Session::is_for_rx', any(SESS + '::is_for_rx' in b.calls_summary for b in [g] + F.nested(g.fn)), 'find(|s| s.is_for_rx(..))', 'is_for_rx not used')
        for fld in ('dec_key', 'enc_key'):
            R.writers_confined('P1', f'{fld}:{SESS}', {SESS + '::new', SESS + '::init', SESS + '::update', SESS + '::upgrade_fabric_idx',
                               'transport::session::Sessions::get_or_create_for_group_rx', 'transport::session::Sessions::get_or_create_for_group_tx'}, min_sites=0)

    # ---- e --------------------------------------------------------------------
    with R.clause('e'):
        from C17 import codec_agreement
        PHh = 'transport::plain_hdr::PlainHdr'
        PRr = 'transport::proto_hdr::ProtoHdr'
        codec_agreement(R, PHh + '::encode', PHh + '::decode', PHh, 6)
        codec_agreement(R, PRr + '::encode', PRr + '::decrypt_and_decode', PRr, 6)
        if groups:
            gr = R.body('transport::session::Sessions::get_or_create_for_group_rx')
            from common import named_local, agg_flowing_to
            gk = named_local(gr, 'group_key_found')
            from C04 import _locals_of
            okor = [t for t in gr.calls('core::option::Option::ok_or') if any(x in gk for x in _locals_of(prims, gr, t.d['a'][0]))]
            R.floor('group_key_found.ok_or(..)', len(okor), 1)
            R.cut('P2', gr, 'touch the per-sender group counter state', call_bbs(gr, 'transport::dedup::GroupCtrStore::post_recv'), 'an operational group key authenticated the message (group_key_found is Some)',
                  lambda: R.call_guard(gr, 'core::option::Option::ok_or', pick=lambda t: t.bb in {o.bb for o in okor}))
            R.cut('P2', gr, 'group_key_found = Some(..)', agg_flowing_to(gr, gk, 'Some'), 'try_group_decrypt returned Some',
                  lambda: R.call_guard(gr, 'transport::session::Sessions::try_group_decrypt'))

