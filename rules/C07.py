"""C07 - Nothing bound to a fabric outlives that fabric."""
from common import (mentions, closure_in, async_body, closure_arg_sites, ok_return_bbs, call_bbs, named_local, src_calls,
                    src_fields, src_consts, field_bool_edges, bodies_of, complete_removal_scan)
from facts import AnchorLost, op_place
import prims

EXPLANATION = """
Static structural rules over failsafe.rs, dm/clusters/{noc,gen_comm,adm_comm}.rs, transport/session.rs, im.rs:
(a) clean-up sibling agreement: Fabrics::remove has a closed set of callers (RemoveFabric, fail-safe roll-back, the
AddNOC scope-guard that undoes a fabric created in the same critical section); for RemoveFabric, from the success edge
of Fabrics::remove every path passes Sessions::remove_for_fabric and (feature case-resumption)
ResumableSessions::remove_for_fabric with the same fabric index; for FailSafe::expire, from the Some edge of the
`removed fabric` result every path passes both purges; Sessions::remove_for_fabric re-scans from the start after every
removal (swap_remove moves the last element into the freed slot); (b) every caller of FailSafe::expire /
check_failsafe_timeout propagates its error and broadcasts notify_fabric_removed for the reported index;
(c) expired sessions refuse new exchanges: Session::post_recv's add_exch is cut by the expired == false edge, and the
outbound lookups filter on !expired; (d) the reporter drops subscriptions whose fabric no longer exists: in
process_subscriptions' removal predicate the `fabric removed` verdict is reached on the None edge of
fabrics.get(sub.fab_idx) on every pass (not only on a wake-up reason).
"""
CLAUSES = ['a: every fabric-removal path purges sessions and resumption records (complete removal scan) and spares the sessions of other fabrics', 'b: removal is broadcast to the handlers',
           'c: expired sessions refuse new exchanges', 'd: subscriptions of a missing fabric are dropped']
NOT_DECIDED = ['the history-level claim (which credentials still work after which sequence)', 'ACL / group-key removal inside Fabric (dropped with the Fabric value itself)']
MIN_OBLIGATIONS = {'q': 18, 'd': 14, 'r': 14}

NOC = '<dm::clusters::noc::NocHandler as dm::clusters::decl::operational_credentials::ClusterHandler>'
SESSIONS = 'transport::session::Sessions'
RESUME_RM = 'sc::case::resumption::ResumableSessions::remove_for_fabric'
SESS_RM = SESSIONS + '::remove_for_fabric'


def check(R):
    F = R.facts
    resumption = 'case-resumption' in (F.hdr.get('features') or '')
    # ---- a --------------------------------------------------------------------
    with R.clause('a'):
        pass
        R.callers_confined('P1', 'fabric::Fabrics::remove', {NOC + '::handle_remove_fabric', NOC + '::handle_add_noc', 'failsafe::FailSafe::expire'}, min_callers=2)
        purges = [SESS_RM] + ([RESUME_RM] if resumption else [])
        # RemoveFabric
        rf = closure_in(R, NOC + '::handle_remove_fabric', ['Fabrics::remove'])
        succ = R.call_guard(rf, 'fabric::Fabrics::remove')
        for p in purges:
            pb = [t.bb for t in rf.calls(p)]
            if not pb:
                R.fail('P5', rf.fn, f'RemoveFabric purges {p.split("::")[-2]} of the removed fabric',
                       f'handle_remove_fabric removes the fabric (Fabrics::remove) but never calls {p}: state bound to the removed fabric index survives and is inherited '
                       'by the next fabric that receives the same index (the fail-safe roll-back, the sibling removal path, does purge it)', f'{rf.file}:{rf.line}',
                       key=f'P5|{NOC}::handle_remove_fabric|missing:{p}')
                continue
            bad = prims.always_followed_by(rf, [e[1] for e in succ], pb)
            R.expect('P3', rf.fn, f'RemoveFabric: after fabrics.remove succeeded every path reaches {p.split("::")[-2]}::{p.split("::")[-1]}', not bad,
                     'purge on every path', f'a path from the success edge returns without {p}', rf.where(pb[0]))
            t = rf.calls(p)[0]
            rm = rf.calls('fabric::Fabrics::remove')[0]
            s1 = prims.sources(rf, t.d['a'][1])
            s2 = prims.sources(rf, rm.d['a'][1])
            common = {x for x in s1 & s2 if x[0] in ('upvar', 'arg', 'field')}
            R.expect('P10', rf.fn, f'{p.split("::")[-2]} is purged for the index that was removed', bool(common), f'same index source {sorted(map(str, common))[:3]}',
                     f'purge index {sorted(map(str, s1))[:4]} vs removed index {sorted(map(str, s2))[:4]}', rf.where(t.bb))
        # fail-safe roll-back
        ex = R.body('failsafe::FailSafe::expire')
        rmv = named_local(ex, 'removed_fabric')
        some_edges, _ = prims.enum_local_edges(F, ex, lambda pl: pl[0] in rmv and len(pl) == 1, 'core::option::Option', ['Some'])
        for p in purges:
            try:
                pb = [t.bb for t in ex.calls(p)]
            except AnchorLost:
                pb = []
            if not pb:
                R.fail('P5', ex.fn, f'fail-safe roll-back purges {p.split("::")[-2]} of the dropped fabric',
                       f'FailSafe::expire removes the fabric (Fabrics::remove) but never calls {p}: state bound to the rolled-back fabric index survives and is '
                       f'inherited by the next fabric that receives the same index', f'{ex.file}:{ex.line}',
                       key=f'P5|failsafe::FailSafe::expire|missing:{p}')
                continue
            bad = prims.always_followed_by(ex, [e[1] for e in some_edges], pb) if some_edges else ['no Some edge']
            # the Some test may sit right at the purge: accept "purge is on every path from the point where removed_fabric is known Some"
            R.expect('P3', ex.fn, f'roll-back: when a fabric was dropped every path reaches {p.split("::")[-2]}::{p.split("::")[-1]}', not bad,
                     'purge on every path from removed_fabric == Some', f'a path returns without {p}', ex.where(pb[0]))
            t = ex.calls(p)[0]
            s1 = prims.sources(ex, t.d['a'][1])
            R.expect('P10', ex.fn, f'{p.split("::")[-2]} is purged for the dropped fabric index', any(x[0] == 'field' and 'Some' in x[1] for x in s1) or mentions(s1, 'fab_idx') or any(l in rmv for l in _locals(ex, t.d['a'][1])),
                     'index <= removed_fabric', f'{sorted(map(str, s1))[:5]}', ex.where(t.bb))
        exc = closure_in(R, 'failsafe::FailSafe::expire', ['Fabrics::remove'])
        rb = exc.calls('fabric::Fabrics::remove')[0]
        al = exc.calls('fabric::Fabrics::add_load')
        R.floor('add_load in roll-back', len(al), 1)
        def dropped_or_absent():
            e = set(R.call_guard(exc, 'fabric::Fabrics::remove'))
            for t in exc.calls('fabric::Fabrics::get'):
                if t.bb < rb.bb or rb.bb not in prims.reach(exc, exc.succ[t.bb]) or True:
                    e |= prims.track_result(F, exc, t).failure
            return e
        R.cut('P2', exc, 'reload the persisted copy', [t.bb for t in al], 'the in-memory fabric was dropped (fabrics.remove ok) or was not there any more', dropped_or_absent)
        # AddNOC scope guard: the fabric being undone was created in the same closure
        an = bodies_of(F, NOC + '::handle_add_noc')
        has_add = any('failsafe::FailSafe::add_noc' in b.calls_summary for b in an)
        R.expect('P5', NOC + '::handle_add_noc', 'the AddNOC undo removes only a fabric created by the same command', has_add, 'FailSafe::add_noc in the same handler', 'Fabrics::remove in handle_add_noc without add_noc')
        # Sessions::remove_for_fabric visits every session: the scan restarts after each swap_remove
        srm = R.body(SESS_RM)
        swaps = [t.bb for t in srm.calls() if t.d.get('f', '').endswith('::swap_remove')]
        R.floor('swap_remove in Sessions::remove_for_fabric', len(swaps), 1)
        pos = [t.bb for t in srm.calls() if t.d.get('f', '').endswith('Iterator::position')]
        R.expect('P3', srm.fn, 'after each swap_remove the search restarts with a fresh position() scan', bool(pos) and all(
            set(pos) & prims.reach(srm, srm.succ[s]) and not (set(srm.ret_blocks()) & prims.reach(srm, srm.succ[s], cut_blocks=set(pos))) for s in swaps),
            'while let Some(i) = position(..) { swap_remove(i) }', 'a swap_remove can be followed by return / further removals without re-scanning: the element moved into the freed slot is skipped')
        pc = [b for b in F.nested(srm.fn) if b.kind == 'closure']
        okp = False
        for b in pc:
            cs = prims.compare_sites(b, ops=('Eq',))
            if any(SESSIONS.replace('Sessions', 'Session') + '::get_local_fabric_idx' in src_calls(prims.sources(b, c[3]) | prims.sources(b, c[4])) for c in cs):
                okp = True
        R.expect('P9', srm.fn, 'the removal predicate compares the session\'s fabric index', okp, 'sess.get_local_fabric_idx() == fabric_idx', 'predicate does not compare the fabric index')
        # "sessions of other fabrics are unaffected": remove_for_fabric marks the session `expire_sess_id` expired by id alone, so every
        # caller hands it either None or an id it has tested to belong to the fabric being removed (get_local_fabric_idx() == fab_idx)
        GLF = SESSIONS.replace('Sessions', 'Session') + '::get_local_fabric_idx'
        csites = [(b, t) for b in F.bodies.values() if b.focus and '::tests::' not in b.fn for t in b.calls(SESS_RM)]
        R.floor('callers of Sessions::remove_for_fabric', len(csites), 2)
        for b, t in sorted(csites, key=lambda x: x[0].fn):
            s_ = prims.sources(b, t.d['a'][2], through={'core::option::Option::filter', 'core::bool::<impl bool>::then_some', 'core::bool::<impl bool>::then', 'core::option::Option::and_then'})
            only_none = s_ and all(x[0] == 'agg' and x[1] == 'core::option::Option' and x[2] == 'None' for x in s_)
            clos = [x[1] for x in s_ if x[0] == 'closure']
            tested = GLF in src_calls(s_) or any(GLF in nb.calls_summary for c_ in clos for nb in F.bodies.values() if nb.fn == c_ or nb.fn.startswith(c_ + '::'))
            R.expect('P10', b.fn, 'the session kept alive (marked expired) by remove_for_fabric is None or was tested to belong to the removed fabric', bool(only_none or tested),
                     'None' if only_none else 'filtered by get_local_fabric_idx() == fab_idx',
                     f'expire_sess_id reaches remove_for_fabric untested ({sorted(map(str, s_))[:4]}): a session of another fabric that merely carried the triggering exchange is expired',
                     b.where(t.bb))
        if resumption:
            rr = R.body(RESUME_RM)
            complete_removal_scan(R, 'P4', rr, 'fab_idx:sc::case::resumption::ResumableSession', 'the resumption purge drops every record of the fabric')

    # ---- b --------------------------------------------------------------------
    with R.clause('b'):
        pass
        owners = set()
        for c in F.callers_of('failsafe::FailSafe::expire') | F.callers_of('failsafe::FailSafe::check_failsafe_timeout'):
            o = F.owner_fn(c)
            if o.startswith('failsafe::'):
                continue
            owners.add(o)
        R.floor('external callers of the fail-safe expiry', len(owners), 3)
        for o in sorted(owners):
            bs = bodies_of(F, o)
            notif = any(any(c.endswith('notify_fabric_removed') for c in b.calls_summary) for b in bs)
            R.expect('P3', o, 'expiry caller broadcasts notify_fabric_removed', notif, 'notify_fabric_removed called', f'{o} expires the fail-safe but never broadcasts the fabric removal')
            for b in bs:
                for callee in ('failsafe::FailSafe::expire', 'failsafe::FailSafe::check_failsafe_timeout'):
                    if callee in b.calls_summary:
                        from common import result_used
                        result_used(R, 'P8', b, (callee,))
        rfo = bodies_of(F, NOC + '::handle_remove_fabric')
        R.expect('P3', NOC + '::handle_remove_fabric', 'RemoveFabric broadcasts notify_fabric_removed', any(any(c.endswith('notify_fabric_removed') for c in b.calls_summary) for b in rfo), 'ok', 'no broadcast')

    # ---- c --------------------------------------------------------------------
    with R.clause('c'):
        pass
        SESS = 'transport::session::Session'
        pr = R.body(SESS + '::post_recv')
        te, fe = field_bool_edges(pr, 'expired:' + SESS)
        R.cut('P2', pr, 'open a new exchange (add_exch)', call_bbs(pr, SESS + '::add_exch'), 'self.expired == false', fe)
        for fn, fld in ((SESSIONS + '::get_for_node', 'expired'), (SESSIONS + '::get_pase_for_addr', 'expired')):
            bs = bodies_of(F, fn)
            R.floor('bodies of ' + fn, len(bs), 1)
            ok = any(prims.field_influences_result(b, 'expired:' + SESS)[0] for b in bs)
            R.expect('P9', fn, 'outbound session lookup filters on !expired', ok, 'reads Session.expired', 'does not read Session.expired')
        ini = [b for b in F.bodies.values() if b.focus and b.fn.startswith('transport::') and SESS + '::is_expired' in b.calls_summary]
        R.expect('P9', 'transport::Transport', 'initiating on an existing session filters on is_expired()', len(ini) >= 1, f'{[b.fn for b in ini]}', 'Session::is_expired has no caller in transport')
        R.writers_confined('P1', 'expired:' + SESS, {SESS + '::new', SESS + '::init', SESS + '::pre_send', SESSIONS + '::remove_for_fabric', SESSIONS + '::remove_pase',
                           SESS + '::post_send', SESS + '::mark_expired'}, min_sites=2)

    # ---- d --------------------------------------------------------------------
    with R.clause('d'):
        pass
        ps = 'im::InteractionModel::process_subscriptions'
        pred = closure_in(R, ps, ['Fabrics::get'])
        rd = prims.result_defs(pred)
        somes = [bb for bb, k, p in rd if k == 'agg' and p.get('var') == 'Some']
        R.floor('Some(reason) results of the fabric-existence predicate', len(somes), 1)
        none_edges = lambda: _none_edges(R, pred, 'fabric::Fabrics::get')
        # on the None edge a Some(reason) result is produced on every path
        ne = none_edges()
        bad = []
        for (frm, to) in ne:
            r = prims.reach(pred, (to,), cut_blocks=set(somes))
            if set(pred.ret_blocks()) & r:
                bad.append(pred.where(frm))
        R.expect('P3', pred.fn, 'fabrics.get(sub.fab_idx) == None always yields a removal verdict', bool(ne) and not bad, 'None edge -> Some("fabric removed")',
                 f'None edge can return without a verdict: {bad}')
        t = pred.calls('fabric::Fabrics::get')[0]
        s = prims.sources(pred, t.d['a'][1], through={'im::subscriptions::Subscription::ids'})
        R.expect('P10', pred.fn, 'the fabric looked up is the subscription\'s own', mentions(s, 'fab_idx'), 'fabrics.get(sub.ids().fab_idx)', f'{sorted(map(str, s))[:5]}')
        # the purge is not conditional on a wake-up reason: the removal call is reached on every iteration of the reporter loop
        co = async_body(R, ps)
        outer = closure_in(R, ps, ['Subscription::is_expired'])
        sites = closure_arg_sites(co, outer.fn)
        R.floor('subscriptions.remove(predicate) site', len(sites), 1)
        isites = closure_arg_sites(outer, pred.fn)
        R.floor('with_state(fabric-existence predicate) site', len(isites), 1)
        exp = outer.calls('im::subscriptions::Subscription::is_expired')
        R.floor('is_expired in the removal predicate', len(exp), 1)
        notexp = prims.track_result(F, outer, exp[0]).failure
        badp = prims.always_followed_by(outer, [e[1] for e in notexp], [t.bb for t in isites])
        R.expect('P3', outer.fn, 'every non-expired subscription is checked against the fabric table on every sweep', bool(notexp) and not badp,
                 'is_expired == false -> with_state(fabrics.get(..))', 'a path returns a verdict for a live subscription without consulting the fabric table (e.g. only on some wake-up reasons)')
        cond = _conditional_on(co, sites[0].bb)
        R.expect('P3', co.fn, 'the removal sweep runs on every reporter pass', not cond, 'unconditional within the loop',
                 f'the sweep at {co.where(sites[0].bb)} is only reached under condition(s) at {cond}')


def _locals(body, operand):
    out = set()
    p = op_place(operand)
    if p:
        out.add(p[0])
        work = [p[0]]
        seen = set()
        while work:
            l = work.pop()
            if l in seen:
                continue
            seen.add(l)
            out.add(l)
            for (bb, i, kind, payload) in body.defs.get(l, ()):
                if kind in ('assign', 'passign') and payload[1].get('op') in ('use', 'cast'):
                    q = op_place(payload[1]['a'][0])
                    if q:
                        work.append(q[0])
    return out


def _none_edges(R, body, callee):
    e = set()
    for t in body.calls(callee):
        # Option::is_none(..) == true, or discriminant None
        tr = prims.track_result(R.facts, body, t)
        e |= tr.failure
    return e


def _conditional_on(body, target_bb):
    """switch blocks (excluding await/poll and `?` plumbing) that dominate target within the innermost loop: a simple
    approximation - is there a path from the loop head back to itself that avoids target?"""
    # find a cycle through target
    r_from = prims.reach(body, body.succ[target_bb])
    if target_bb not in r_from:
        return []
    # blocks on cycles with target: those reachable from target and reaching target
    cyc = {b for b in r_from if target_bb in prims.reach(body, body.succ[b])} | {target_bb}
    # is there a cycle inside `cyc`-reachable region that avoids target? i.e. from some block in cyc, reach itself with target cut
    conds = []
    for b in sorted(cyc):
        if b == target_bb:
            continue
        r = prims.reach(body, body.succ[b], cut_blocks={target_bb})
        if b in r and body.bbs[b]['t']['t'] == 'switch':
            # ignore poll loops: cycles made only of await plumbing contain a yield
            ys = [x for x in r if body.bbs[x]['t']['t'] == 'yield' and b in prims.reach(body, body.succ[x], cut_blocks={target_bb})]
            if not ys:
                conds.append(body.where(b))
    return conds
