#!/usr/bin/env python3
"""./check <Cxx> [--tier quick|thorough] [--replay <path>]

Runs the static rules of one property against facts extracted from /repo's
current working tree.  Exit 0: every structural condition held (known findings
are printed).  Exit 1: `VIOLATION property=<id> replay=<path>`.  Exit 2: the
check could not decide (anchor lost / extractor failed) - never silently 0.
"""
import importlib
import json
import os
import sys
import time
import traceback

HERE = os.path.dirname(os.path.abspath(__file__))
VERIF = os.path.dirname(HERE)
sys.path.insert(0, HERE)

import extract  # noqa: E402
import prims  # noqa: E402
from facts import Facts, AnchorLost, Unrecognised, GuardMissing  # noqa: E402


class RuleCtx:
    def __init__(self, facts, config, prop):
        self.facts = facts
        self.config = config
        self.prop = prop
        self.obligations = []
        self.notes = []
        self.sites = 0
        self.undecided = []

    # -- plumbing -------------------------------------------------------------
    def clause(self, name):
        """Context manager: an anchor lost inside one clause leaves the other clauses decidable."""
        ctx = self

        class _C:
            def __enter__(self_):
                return self_

            def __exit__(self_, et, ev, tb):
                if et is None:
                    return False
                if issubclass(et, (AnchorLost, Unrecognised, NameError, GuardMissing)):
                    ctx.undecided.append(f"clause {name}: {et.__name__}: {ev}")
                    return True
                return False
        return _C()

    def add(self, ob):
        ob.key = f"{self.prop}|{ob.key}"
        self.obligations.append(ob)
        return ob

    def ok(self, rule, fn, what, detail, where=''):
        return self.add(prims.Obligation(rule, fn, what, True, detail, where))

    def fail(self, rule, fn, what, detail, where='', path=None, key=None):
        return self.add(prims.Obligation(rule, fn, what, False, detail, where, key=key, path=path))

    def expect(self, rule, fn, what, cond, detail_ok, detail_bad, where=''):
        if cond:
            return self.ok(rule, fn, what, detail_ok, where)
        return self.fail(rule, fn, what, detail_bad, where)

    def note(self, s):
        self.notes.append(s)

    def body(self, path):
        return self.facts.body(path)

    def floor(self, what, n, floor):
        if n < floor:
            raise AnchorLost(f"{what}: {n} site(s), hand-counted floor is {floor}")

    # -- P1 ---------------------------------------------------------------------
    def confine(self, rule, what, actual, allowed, strip_closures=True, where='', through_helpers=False):
        """actual ⊆ allowed (sets of function def-paths)."""
        if strip_closures:
            actual = {self.facts.owner_fn(a) for a in actual}
        # an allow-list entry ending in `::*` admits every (non-test) method of that type / module: a private helper of the owner is the owner
        pref = tuple(a[:-1] for a in allowed if a.endswith('::*'))
        extra = sorted(a for a in set(actual) - set(allowed) if not (pref and a.startswith(pref) and '::tests::' not in a))
        # a helper that cannot be called from outside the crate and is itself only called from the allow-list does not widen it
        def via_allowed(fn, depth=3, seen=()):
            it = self.facts.fnitems.get(fn)
            if depth == 0 or fn in seen or it is None or (it.get('vis') == 'pub' and it.get('reach')):
                return False
            cs = {self.facts.owner_fn(c) for c in self.facts.callers_of(fn)} - {fn}
            return bool(cs) and all(c in allowed or (pref and c.startswith(pref)) or via_allowed(c, depth - 1, seen + (fn,)) for c in cs)
        helpers = [e for e in extra if through_helpers and via_allowed(e)]
        if helpers:
            self.note(f"{what}: {helpers} are crate-private helpers called only from the allow-list")
        extra = [e for e in extra if e not in helpers]
        if extra:
            for e in extra:
                b = self.facts.bodies.get(e)
                w = f"{b.file}:{b.line}" if b else where
                self.fail(rule, e, what, f"{e} is not in the allow-list {sorted(allowed)}", where=w,
                          key=f"{rule}|{what}|{e}")
        else:
            self.ok(rule, '*', what, f"{len(actual)} site(s), all within the allow-list: {sorted(actual)}")

    def callers_confined(self, rule, callee, allowed, min_callers=1):
        cs = self.facts.callers_of(callee)
        if callee not in self.facts.bodies and callee not in self.facts.fnitems:
            raise AnchorLost(f"{callee} not found")
        self.floor(f"callers of {callee}", len(cs), min_callers)
        self.confine(rule, f"callers of {callee}", cs, allowed, through_helpers=True)

    def constructors_confined(self, rule, adt, allowed, min_sites=1):
        cs = self.facts.constructors.get(adt, set())
        self.floor(f"constructors of {adt}", len(cs), min_sites)
        self.confine(rule, f"constructors of {adt}", cs, allowed)

    def writers_confined(self, rule, field, allowed, min_sites=1):
        cs = self.facts.writers.get(field, set())
        self.floor(f"writers of {field}", len(cs), min_sites)
        self.confine(rule, f"writers of field {field}", cs, allowed)

    def _guard_wrappers(self, names, success_variants=None, bool_pos=True, inner=0):
        """In-crate functions W whose success result is cut by the success of their own call of one of `names`
        (or whose result IS that call): W succeeded => the guard succeeded."""
        if not hasattr(self, '_wrap_cache'):
            self._wrap_cache = {}
        key = (tuple(sorted(names)), tuple(success_variants or ()), bool_pos, inner)
        if key in self._wrap_cache:
            return self._wrap_cache[key]
        import common
        out = set()
        for n in names:
            for c in self.facts.callers_of(n):
                w = self.facts.bodies.get(c)
                if w is None or not w.focus or w.kind in ('closure', 'coroutine') or '::{' in w.fn:
                    continue
                edges = set()
                try:
                    for s_ in w.calls(n):
                        edges |= prims.track_result(self.facts, w, s_, success_variants=success_variants, bool_pos=bool_pos, inner=inner).success
                except Exception:
                    continue
                ret = w.rec.get('ret', '')
                rd = prims.result_defs(w)
                if rd and all(k == 'call' and (p_.get('r') or p_.get('f')) in names for bb, k, p_ in rd):
                    out.add(w.fn)     # `fn w(..) -> R { guard(..) }`
                    continue
                if not edges:
                    continue
                if ret.startswith('core::result::Result'):
                    succ = common.ok_return_bbs(w)
                elif ret == 'bool':
                    succ = prims.nonfalse_result_bbs(w)
                elif ret.startswith('core::option::Option'):
                    succ = common.ok_return_bbs(w, 'Some', 'core::option::Option')
                else:
                    continue
                if succ and not (set(succ) & prims.reach(w, (0,), cut_edges=edges)):
                    out.add(w.fn)
        self._wrap_cache[key] = out
        return out

    # -- P2 ---------------------------------------------------------------------
    def call_guard(self, body, names, success_variants=None, min_sites=1, bool_pos=True, pick=None, desc=None,
                   inner=0):
        """Union of success edges of all call sites of `names` in body.
        A missing guard call in an existing function is the violation itself."""
        if isinstance(names, str):
            names = (names,)
        sites = body.calls(*names)
        if pick:
            sites = [s for s in sites if pick(s)]
        if len(sites) < min_sites and not pick:
            # a helper extracted around the guard keeps guarding: W(..) succeeded => guard(..) succeeded
            ws = self._guard_wrappers(names, success_variants, bool_pos, inner)
            wsites = [t for t in body.calls() if (t.d.get('r') or t.d.get('f')) in ws]
            if wsites:
                self.note(f"{body.fn}: guard {desc or names[0]} is reached through the wrapper(s) {sorted({(t.d.get('r') or t.d.get('f')) for t in wsites})}")
                edges = set()
                for s in wsites:
                    tr = prims.track_result(self.facts, body, s)
                    edges |= tr.success
                if edges:
                    self.sites += len(wsites)
                    return edges
        if len(sites) < min_sites:
            raise GuardMissing(f"{body.fn}: guard call {desc or names[0]} not found ({len(sites)} < {min_sites})")
        edges = set()
        for s in sites:
            tr = prims.track_result(self.facts, body, s, success_variants=success_variants, bool_pos=bool_pos,
                                    inner=inner)
            if not tr.success:
                raise GuardMissing(
                    f"{body.fn}: result of {desc or names[0]} at {body.where(s.bb)} reaches no branch"
                    f" (returned={tr.returned}, passed_to={tr.passed_to[:3]})")
            edges |= tr.success
        self.sites += len(sites)
        return edges

    def cut_from(self, rule, body, start_bb, action_desc, action_bbs, guard_desc, edges_fn):
        """Like cut, but only for paths that pass through start_bb: from start_bb the
        action is reachable only over the guard's success edges."""
        what = f"{action_desc} cut-by {guard_desc}"
        try:
            edges = edges_fn() if callable(edges_fn) else edges_fn
        except GuardMissing as e:
            return self.fail(rule, body.fn, what, f"guard missing: {e}", where=f"{body.file}:{body.line}")
        if not edges:
            return self.fail(rule, body.fn, what, f"guard '{guard_desc}' has no success edge", where=body.where(start_bb))
        blocks, parents = prims.reach(body, (start_bb,), cut_edges=edges, want_parents=True)
        bad = sorted(set(action_bbs) & blocks)
        if bad:
            path = prims.witness_path(body, parents, bad[0])
            return self.fail(rule, body.fn, what,
                             f"{action_desc} at {body.where(bad[0])} is reachable from {body.where(start_bb)} without the success edge of {guard_desc}",
                             where=body.where(bad[0]), path=[f"bb{b}@{body.where(b)}" for b in (path or [])][:40])
        return self.ok(rule, body.fn, what, f"from bb{start_bb}: {len(set(action_bbs))} action site(s) only over {sorted(edges)[:3]}",
                       where=body.where(start_bb))

    def cut(self, rule, body, action_desc, action_bbs, guard_desc, edges_fn, per_visit=False):
        """edges_fn: callable returning the guard's success edges (may raise GuardMissing)."""
        what = f"{action_desc} cut-by {guard_desc}"
        try:
            edges = edges_fn() if callable(edges_fn) else edges_fn
        except GuardMissing as e:
            return self.fail(rule, body.fn, what, f"guard missing: {e}", where=f"{body.file}:{body.line}")
        if not edges:
            return self.fail(rule, body.fn, what, f"guard '{guard_desc}' has no success edge in {body.fn}",
                             where=f"{body.file}:{body.line}")
        ob = prims.cut_by(self.facts, body, rule, action_desc, action_bbs, guard_desc, edges, per_visit=per_visit)
        return self.add(ob)


def load_known():
    p = os.path.join(VERIF, 'known_findings.json')
    if not os.path.exists(p):
        return {}
    with open(p) as f:
        d = json.load(f)
    return {(e['property'], e['key']): e for e in d.get('findings', [])}


def main(argv):
    prop = None
    tier = os.environ.get('VERIF_TIER', 'quick')
    replay = None
    i = 0
    while i < len(argv):
        a = argv[i]
        if a == '--tier':
            tier = argv[i + 1]
            i += 1
        elif a == '--replay':
            replay = argv[i + 1]
            i += 1
        elif prop is None:
            prop = a
        i += 1
    if prop is None:
        print(__doc__)
        return 2
    if tier not in ('quick', 'thorough'):
        tier = 'quick'
    seed = int(os.environ.get('VERIF_SEED', '0') or 0)
    t0 = time.time()
    mod = importlib.import_module(prop)
    configs = ['q'] if tier == 'quick' else list(getattr(mod, 'THOROUGH_CONFIGS', ['q', 'd', 'r']))
    EVDIR = os.environ.get('VERIF_EVIDENCE_DIR') or os.path.join(VERIF, 'evidence')
    ev_path = os.path.join(EVDIR, f'{prop}.json')
    os.makedirs(os.path.dirname(ev_path), exist_ok=True)
    all_obs = []
    undecided = []
    notes = []
    per_config = {}
    hdrs = {}
    try:
        for cfg in configs:
            fpath, th, dt = extract.ensure_facts(cfg)
            facts = Facts(fpath)
            hdrs[cfg] = {'tree_hash': th, 'n_bodies': facts.hdr['n_bodies'], 'n_focus': facts.hdr['n_focus'],
                         'features': extract.CONFIGS[cfg], 'extract_s': round(dt, 1)}
            R = RuleCtx(facts, cfg, prop)
            mod.check(R)
            undecided.extend(f"[{cfg}] {u}" for u in R.undecided)
            for o in R.obligations:
                o.config = cfg
            all_obs.extend(R.obligations)
            notes.extend(f"[{cfg}] {n}" for n in R.notes)
            per_config[cfg] = len(R.obligations)
            floor = getattr(mod, 'MIN_OBLIGATIONS', {}).get(cfg, 1)
            if len(R.obligations) < floor and not R.undecided:
                raise AnchorLost(f"only {len(R.obligations)} obligations evaluated in config {cfg}, floor {floor}")
    except (AnchorLost, Unrecognised, extract.ExtractError) as e:
        print(f"CHECK-ERROR property={prop} cannot decide: {type(e).__name__}: {e}")
        write_evidence(ev_path, prop, tier, seed, mod, all_obs, [], [], hdrs, notes + [f"CHECK-ERROR: {e}"], t0)
        return 2
    except Exception:
        traceback.print_exc()
        print(f"CHECK-ERROR property={prop} internal error")
        return 2

    if os.environ.get('VERIF_DUMP'):
        for o in all_obs:
            print(f"  {'held    ' if o.ok else 'VIOLATED'} [{getattr(o, 'config', '?')}] [{o.rule}] {o.fn.split('::', 2)[-1]}: {o.what} -- {o.detail}"[:400])
    known = load_known()
    viol, kf = [], []
    seen_keys = set()
    for o in all_obs:
        if o.ok:
            continue
        if o.key in seen_keys:
            continue
        seen_keys.add(o.key)
        if (prop, o.key) in known:
            kf.append(o)
        else:
            viol.append(o)
    for o in kf:
        print(f"KNOWN-FINDING: property={prop} {known[(prop, o.key)]['what']} [{o.key}]")
    rc = 0
    if viol:
        rdir = os.path.join(EVDIR, 'replay')
        os.makedirs(rdir, exist_ok=True)
        rpath = os.path.join(rdir, f'{prop}.json')
        with open(rpath, 'w') as f:
            json.dump({'property': prop, 'tier': tier, 'violations': [dict(o.to_json(), config=getattr(o, 'config', '?')) for o in viol],
                       'rerun': f'./check {prop} --replay {rpath}'}, f, indent=1)
        for o in viol:
            print(f"  violated: [{o.rule}] {o.fn}: {o.what}\n    {o.detail}\n    at {o.where}  key={o.key}")
            if o.path:
                print(f"    path: {' -> '.join(o.path[:14])}")
        print(f"VIOLATION property={prop} replay={rpath}")
        rc = 1
    for u in undecided:
        print(f"CHECK-ERROR property={prop} cannot decide: {u}")
    if undecided and rc == 0:
        rc = 2
    notes = notes + [f"UNDECIDED: {u}" for u in undecided]
    if replay:
        try:
            want = {v['key'] for v in json.load(open(replay)).get('violations', [])}
        except Exception:
            want = set()
        for o in all_obs:
            if o.key in want:
                print(json.dumps(o.to_json(), indent=1))
    write_evidence(ev_path, prop, tier, seed, mod, all_obs, viol, kf, hdrs, notes, t0)
    n_ok = sum(1 for o in all_obs if o.ok)
    print(f"{prop}: {len(all_obs)} obligations over {len(configs)} config(s): {n_ok} hold, {len(kf)} known finding(s), {len(viol)} violation(s)  [{time.time() - t0:.1f}s]")
    return rc


def write_evidence(ev_path, prop, tier, seed, mod, obs, viol, kf, hdrs, notes, t0):
    distinct = {}
    for o in obs:
        distinct.setdefault(o.key, o)
    by_rule = {}
    for o in distinct.values():
        by_rule[o.rule] = by_rule.get(o.rule, 0) + 1
    samples = []
    seen_rules = {}
    for o in distinct.values():
        if seen_rules.get(o.rule, 0) < 3:
            seen_rules[o.rule] = seen_rules.get(o.rule, 0) + 1
            samples.append(o.to_json())
    fns = sorted({o.fn for o in obs})
    ev = {
        'property_id': prop,
        'tier': tier,
        'seed': seed,
        'level': 'other',
        'coverage': {
            'explanation': getattr(mod, 'EXPLANATION', '').strip() or 'static structural rules over extracted MIR',
            'evaluations': len(obs),
            'distinct_nontrivial': len(distinct),
            'rule': 'one evaluation = one rule instance applied to one site of the compiled crate in one feature '
                    'configuration; distinct = distinct (rule, function, obligation) keys; every counted '
                    'obligation analysed at least one concrete site (an anchor that matches nothing aborts the check)',
            'obligations': len(distinct),
            'discharged': sum(1 for o in distinct.values() if o.ok),
            'by_rule': by_rule,
            'functions_analysed': fns[:200],
            'configs': hdrs,
            'samples': samples[:40],
            'exhaustive': True,
            'known_findings': [o.key for o in kf],
            'violations_detail': [o.to_json() for o in viol][:20],
            'notes': notes[:40],
            'clauses_decided': getattr(mod, 'CLAUSES', []),
            'clauses_not_decided': getattr(mod, 'NOT_DECIDED', []),
        },
        'assumptions': [
            'rustc nightly 1.97 MIR construction and type resolution are trusted; /repo pins stable, same edition and cfg',
            'a pass means the named structural necessary conditions hold on every path of the analysed configurations, not that the behavioural statement holds',
            'calls through generic parameters are matched by trait-method path; unsafe/raw-pointer effects are not modelled',
        ] + list(getattr(mod, 'ASSUMPTIONS', [])),
        'wall_s': round(time.time() - t0, 2),
        'violations': len(viol),
    }
    with open(ev_path, 'w') as f:
        json.dump(ev, f, indent=1)


if __name__ == '__main__':
    sys.exit(main(sys.argv[1:]))
