"""C17 - Headers, onboarding payloads and discovery records decode what was encoded (structural clauses)."""
from common import (mentions, closure_in, ok_return_bbs, call_bbs, named_local, src_calls, src_fields, src_consts, bodies_of, result_used)
from facts import AnchorLost, op_place
import prims
import p7
from C16 import surface

EXPLANATION = """
Static rules over the header / status-report codecs and the byte-level decoders; equality of decoded and encoded values and the
base-38 / bit-packing arithmetic are not decided. (a) writer/reader field agreement: for PlainHdr, ProtoHdr and StatusReport the
ordered list of (width, field) written by the encoder (calls WriteBuf::le_uN with the field the value derives from) equals the
ordered list consumed by the decoder (calls ReadBuf::le_uN with the field the result is stored to), and optional fields are guarded
by the same flag constant on both sides; (b) decoder panic surface: every panic-capable MIR site in PlainHdr::decode,
ProtoHdr::decrypt_and_decode / decrypt_in_place, StatusReport::read, ReadBuf (ParseBuf), base38::decode*, the QR / manual pairing
code parsers, CheckIn::parse, the BDX message parsers and the BTP header / handshake parsers is discharged (scheme of C16);
(c) refusals are real: the manual-code parser's Ok is cut by the Verhoeff check-digit validation; the QR parser's Ok by the prefix
test and the minimum-length test. The panic surface of (b) also covers the BLE advertisement parsers (AdStructures, AdvData /
RecoveryAdvData::parse*), the mDNS TXT / address iterators, CommissionableFilter::matches_txt and the responder's receive slice,
the Matter-TLV -> X.509 conversion (CertRef::encode, DN, Extension, ASN1Writer - it runs on peer certificates before their
signature is checked), the X.509 / CSR / DER-signature decoders and the Certification Declaration parser; parsing done inside the
`der` and `domain` crates is outside the analysed crate. (d) every CertConsumer::utctime call site passes a 32-bit certificate
field or a constant (the date conversion it unwraps is total on that range); (e) in parse_pairing_code each digits_at(offset, len)
group is bounded to its field (7, 0xFFFF, 0x1FFF, 0xFFFF, 0xFFFF) by a comparison whose failing edge leaves before Ok, or by its integer type.
"""
CLAUSES = ['a: encoder/decoder field tables agree (PlainHdr, ProtoHdr, StatusReport); BDX range-control flags agree; the base-38 decoder yields its errors', 'b: decoder panic surface discharged (headers, pairing codes, BDX, check-in, BTP, BLE advertisements, mDNS TXT, certificate conversion, X.509/CSR/CD decoders)',
           'c: check digit / prefix / length refusals guard acceptance', 'd: utctime argument bounded at every call site',
           'e: every digit group of the manual code is bounded to its field width', 'f: mDNS TXT pairs split at the first `=` only']
NOT_DECIDED = ['equality of decoded and encoded field values', 'base-38 and bit-packing arithmetic', 'parsing inside the external `der` and `domain` crates', 'equality of the X.509 form with the TLV form of a certificate']
MIN_OBLIGATIONS = {'q': 70, 'd': 70, 'r': 70}

WB = 'utils::storage::writebuf::WriteBuf::'
RB = 'utils::storage::parsebuf::ReadBuf::'
WIDTH = {'le_u8': 8, 'le_u16': 16, 'le_u32': 32, 'le_u64': 64}
ACCESSOR_FIELD = {'get_vendor': 'proto_vendor_id', 'get_ack': 'ack_msg_ctr'}


def writer_table(F, body, adt):
    out = []
    for t in body.calls(*[WB + w for w in WIDTH]):
        w = WIDTH[t.d['f'].split('::')[-1]]
        s = prims.sources(body, t.d['a'][1])
        flds = {f.split(':')[0] for f in src_fields(s) if f.endswith(':' + adt)}
        for c in src_calls(s):
            if c.split('::')[-1] in ACCESSOR_FIELD:
                flds = {ACCESSOR_FIELD[c.split('::')[-1]]}
        out.append((t.line, w, '/'.join(sorted(flds)) or '?'))
    return [(w, f) for (_l, w, f) in sorted(out)]


def reader_table(F, body, adt):
    out = []
    sites = body.calls(*[RB + w for w in WIDTH])
    for t in sites:
        w = WIDTH[t.d['f'].split('::')[-1]]
        fld = set()
        # direct field writes whose value derives from this call
        for i, j, s in body.stmts():
            pl, rv = s[0], s[1]
            names = [x[1:].split(':')[0] for x in pl[1:] if isinstance(x, str) and x.startswith('.') and x.endswith(':' + adt)]
            if names:
                ss = set()
                for a in rv.get('a', ()):
                    ss |= prims.sources(body, a)
                if any(x[0] == 'call' and x[1] == t.d['f'] and x[2] == t.bb for x in ss):
                    fld.add(names[-1])
            if rv.get('op') == 'agg' and rv.get('adt') == adt:
                for name, a in zip(rv.get('fields', ()), rv['a']):
                    ss = prims.sources(body, a)
                    if any(x[0] == 'call' and x[1] == t.d['f'] and x[2] == t.bb for x in ss):
                        fld.add(name)
        out.append((t.line, w, '/'.join(sorted(fld)) or '?'))
    return [(w, f) for (_l, w, f) in sorted(out)]


def flag_guards(body, callee_prefix):
    """constant flag names tested with contains() that dominate each le_uN call (in line order)"""
    out = []
    for t in sorted(body.calls(*[callee_prefix + w for w in WIDTH]), key=lambda t: t.line):
        flags = set()
        for c in body.calls():
            if not c.d.get('f', '').endswith('::contains'):
                continue
            s = set()
            for a in c.d['a'][1:]:
                s |= prims.sources(body, a)
            names = {x[1].split('::')[-1] for x in s if x[0] == 'constp'}
            if not names:
                continue
            tr = prims.track_result(None, body, c)
            if tr.success and t.bb not in prims.reach(body, (0,), cut_edges=tr.success):
                flags |= {'+' + n for n in names}
            elif tr.failure and t.bb not in prims.reach(body, (0,), cut_edges=tr.failure):
                flags |= {'-' + n for n in names}
        out.append(tuple(sorted(flags)))
    return out


def codec_agreement(R, enc_fn, dec_fn, adt, min_fields):
    F = R.facts
    enc, dec = R.body(enc_fn), R.body(dec_fn)
    wt, rt = writer_table(F, enc, adt), reader_table(F, dec, adt)
    R.floor(f'fields written by {enc_fn}', len(wt), min_fields)
    R.expect('P5', adt, f'{enc_fn.split("::")[-1]} and {dec_fn.split("::")[-1]} agree on the ordered (width, field) table', wt == rt, f'{wt}',
             f'encoder writes {wt} but decoder reads {rt}', f'{enc.file}:{enc.line}')
    return wt, rt


def check(R):
    F = R.facts
    # ---- a --------------------------------------------------------------------
    with R.clause('a'):
        PH = 'transport::plain_hdr::PlainHdr'
        codec_agreement(R, PH + '::encode', PH + '::decode', PH, 6)
        ge, gd = flag_guards(R.body(PH + '::encode'), WB), flag_guards(R.body(PH + '::decode'), RB)
        R.expect('P5', PH, 'optional plain-header fields are guarded by the same flags on both sides', ge == gd and any(ge), f'{ge}', f'encoder guards {ge} vs decoder guards {gd}')
        PR = 'transport::proto_hdr::ProtoHdr'
        codec_agreement(R, PR + '::encode', PR + '::decrypt_and_decode', PR, 6)
        enc, dec = R.body(PR + '::encode'), R.body(PR + '::decrypt_and_decode')
        gd = flag_guards(dec, RB)
        R.expect('P5', PR, 'optional proto-header fields are read under the VENDOR / ACK flags', [g for g in gd if g] == [('+VENDOR',), ('+ACK',)], f'{gd}', f'decoder guards {gd}')
        for acc, flag in (('get_vendor', 'VENDOR'), ('get_ack', 'ACK')):
            ab = R.body(PR + '::' + acc)
            cs = set()
            for t in ab.calls():
                if t.d.get('f', '').endswith('::contains'):
                    for a in t.d['a'][1:]:
                        cs |= {x[1].split('::')[-1] for x in prims.sources(ab, a) if x[0] == 'constp'}
            R.expect('P5', PR + '::' + acc, f'the encoder-side accessor tests the {flag} flag', cs == {flag}, f'contains({flag})', f'tests {sorted(cs)}')
        SR = 'sc::StatusReport'
        codec_agreement(R, SR + '::write', SR + '::read', SR, 3)
        # base-38: "every character string offered to each decoder" - the decoder has to be ABLE to refuse: its items are Results, and an
        # adaptor that keeps items only while they are Ok (take_while(Result::is_ok)) also swallows the first Err - a malformed chunk then
        # simply vanishes and "MT:!!!!!<valid code>" decodes to the fields of the valid code
        for fn_ in ('utils::codec::base38::decode', 'utils::codec::base38::decode_base38'):
            bs_ = [R.body(fn_)] + list(F.nested(fn_))
            eat = [b_.where(t.bb) for b_ in bs_ for t in b_.calls() if any(n.endswith(('Iterator::take_while', 'Iterator::filter', 'Iterator::map_while', 'Iterator::flatten', 'Iterator::filter_map')) for n in t.callee_names())
                   and any(x[0] == 'fn' and x[1].endswith(('Result::is_ok', 'Result::ok')) for a in t.d['a'] for x in prims.sources(b_, a))]
            R.expect('P8', fn_, 'the base-38 decoder yields its errors (no adaptor that drops the Err items)', not eat, 'errors reach the caller',
                     f'{eat}: the Err item is dropped together with everything after it - invalid characters, a bad chunk length or an over-range chunk silently shorten the output instead of failing')
        # bulk transfer: the range-control byte selects which optional fields follow and how wide they are.  Writer and parser must look at
        # the same flags, and the parser must take every flag it branches on from the RECEIVED byte (a flag re-built from a default makes
        # the parser read a 4-octet length where the writer put 8)
        RC = 'bdx::RangeControl'
        FLAGS = ('def_len', 'start_offset', 'wide_range')
        for msg in ('bdx::TransferInit', 'bdx::TransferAccept'):
            pb, wbd = R.body(msg + '::parse'), R.body(msg + '::write')
            rd = {f: prims.field_read_locals(pb, f + ':' + RC) for f in FLAGS}
            wr = {f: prims.field_read_locals(wbd, f + ':' + RC) for f in FLAGS}
            R.floor(f'range-control flags evaluated by {msg}::write', len([f for f in FLAGS if wr[f]]), 2)
            R.expect('P5', msg, 'parser and writer evaluate the same range-control flags', {f for f in FLAGS if rd[f]} == {f for f in FLAGS if wr[f]},
                     f'{sorted(f for f in FLAGS if rd[f])}', f'parse evaluates {sorted(f for f in FLAGS if rd[f])}, write evaluates {sorted(f for f in FLAGS if wr[f])}')
            bad = []
            for f in FLAGS:
                for l in sorted(rd[f]):
                    ss = prims.sources(pb, l)
                    if RC + '::from_byte' not in src_calls(ss) or any(x[0] == 'agg' and x[1] == RC for x in ss) or any(c.endswith('Default>::default') or c.endswith('Default::default') for c in src_calls(ss)):
                        bad.append(f)
            R.expect('P10', msg + '::parse', 'every range-control flag the parser branches on is the received byte\'s (RangeControl::from_byte)', not bad,
                     'flags <= RangeControl::from_byte(rb.le_u8())', f'{sorted(set(bad))} is not (only) taken from the received byte: the parser and the writer disagree on the layout that follows')

    # ---- b --------------------------------------------------------------------
    with R.clause('b'):
        bodies = surface(F, 'C17')
        R.floor('decoder bodies', len(bodies), 40)
        total, nb, used = p7.analyse(R, 'P7', bodies, p7.load_audited(), 'C17')
        R.floor('panic-capable sites examined', total, 50)
        R.note(f'{total} panic-capable sites in {nb} of {len(bodies)} decoder bodies; {len(used)} discharged by audited invariants')

    # ---- d --------------------------------------------------------------------
    with R.clause('d'):
        # ASN1Writer::utctime adds MATTER_EPOCH_SECS to its argument and unwraps the date conversion: sound only while every caller
        # passes a 32-bit certificate field (widened) or a named constant
        UT = 'cert::CertConsumer::utctime'
        sites = [(b, t) for b in F.bodies.values() if b.focus and '::tests::' not in b.fn for t in b.calls(UT)]
        R.floor('CertConsumer::utctime call sites', len(sites), 3)
        for n, (b, t) in enumerate(sorted(sites, key=lambda x: (x[0].fn, x[1].line))):
            a = t.d['a'][2]
            bits = p7.max_bits(b, a)
            const = 'k' in a and a['k'].get('v') is not None
            R.expect('P6', b.fn, f'utctime() call #{n + 1} is given a value of at most 32 bits or a compile-time constant', const or (bits is not None and bits <= 32),
                     f'constant {a["k"].get("p", a["k"].get("v"))}' if const else f'{bits}-bit value ({p7.expr_key(b, a)})',
                     f'argument {p7.expr_key(b, a)} is not bounded to 32 bits: MATTER_EPOCH_SECS + epoch / from_unix_timestamp().unwrap() can panic on a peer certificate',
                     b.where(t.bb))

    # ---- e --------------------------------------------------------------------
    with R.clause('e'):
        # "codes with out-of-range fields are refused": every decimal digit group of the manual pairing code is bounded to the width of the
        # field it encodes before the code is accepted - by a comparison that leaves on the error edge, or by being parsed into an integer
        # type that cannot hold more
        pp = R.body('pairing::qr::QrPayload::parse_pairing_code')
        BOUND = {(0, 1): 7, (1, 5): 0xFFFF, (6, 4): 0x1FFF, (10, 5): 0xFFFF, (15, 5): 0xFFFF}
        calls = pp.calls('pairing::qr::QrPayload::digits_at')
        R.floor('digit groups read in parse_pairing_code', len(calls), 5)
        oks = ok_return_bbs(pp)
        seen = set()
        for t in calls:
            off, ln = t.d['a'][1].get('k', {}).get('v'), t.d['a'][2].get('k', {}).get('v')
            if (off, ln) not in BOUND:
                raise AnchorLost(f'digits_at({off}, {ln}) is not a digit group of the manual code layout known to this rule')
            seen.add((off, ln))
            bound = BOUND[(off, ln)]
            m = __import__('re').search(r'Result<(u8|u16|u32|u64|usize)', pp.local_ty(t.d['d'][0]) if t.d.get('d') else '')
            tymax = {'u8': 0xFF, 'u16': 0xFFFF}.get(m.group(1)) if m else None
            what = f'accept the manual code cut-by digit group ({off},{ln}) <= {bound:#x}'
            if tymax is not None and tymax <= bound:
                R.ok('P2', pp.fn, what, f'parsed as {m.group(1)}: cannot exceed {tymax:#x}', pp.where(t.bb))
                continue

            def edges(t=t, bound=bound):
                e = set()
                isv = lambda s_: any(x[0] == 'call' and x[1].endswith('::digits_at') and x[2] == t.bb for x in s_)
                for op, take_true, okc in (('Gt', False, lambda c: c <= bound), ('Ge', False, lambda c: c <= bound + 1), ('Le', True, lambda c: c <= bound), ('Lt', True, lambda c: c <= bound + 1)):
                    for bb, te, fe in prims.cmp_guard_edges(pp, op, isv, lambda s_: any(isinstance(v, int) and okc(v) for v in src_consts(s_)), symmetric=False):
                        e |= te if take_true else fe
                return e
            R.cut_from('P2', pp, t.d['to'], 'accept the manual code', oks, f'digit group ({off},{ln}) <= {bound:#x}', edges)
        R.expect('P5', pp.fn, 'all five digit groups of the layout are read', seen == set(BOUND) or seen == set(BOUND) - {(10, 5), (15, 5)}, f'{sorted(seen)}', f'groups read: {sorted(seen)}')

    # ---- f --------------------------------------------------------------------
    with R.clause('f'):
        # mDNS TXT pairs decode to what was encoded: `key=value` splits at the FIRST '=' and the value runs to the end of the string
        # (RFC 6763 6.4 allows '=' inside a value: `PI=dGVzdA==`). Accepted idioms: find('=') + `[..eq]` / `[eq + 1..]`, split_once, splitn(2, ..)
        tx = R.body('<transport::network::mdns::builtin::query::MdnsTxt as core::iter::traits::iterator::Iterator>::next')
        cs_ = tx.calls_summary
        S_ = 'core::str::<impl str>::'
        wrong = sorted(c for c in cs_ if c in (S_ + 'split', S_ + 'rsplit', S_ + 'rfind', S_ + 'rsplit_once', S_ + 'split_terminator', S_ + 'rsplitn'))
        if wrong:
            R.fail('P10', tx.fn, 'a TXT pair is split at the first `=` only; the value runs to the end of the string',
                   f'{[c.split("::")[-1] for c in wrong]} splits at every / the last `=`: a value that contains `=` is cut short', f'{tx.file}:{tx.line}')
        elif S_ + 'split_once' in cs_ or S_ + 'splitn' in cs_:
            R.ok('P10', tx.fn, 'a TXT pair is split at the first `=` only; the value runs to the end of the string', 'split_once / splitn')
        elif S_ + 'find' in cs_:
            aggs = {st[1].get('adt') for i, j, st in tx.stmts() if st[1].get('op') == 'agg' and str(st[1].get('adt', '')).startswith('core::ops::range::')}
            R.expect('P10', tx.fn, 'a TXT pair is split at the first `=` only; the value runs to the end of the string', 'core::ops::range::RangeFrom' in aggs and 'core::ops::range::RangeTo' in aggs,
                     'find(=); key = s[..eq], value = s[eq + 1..]', f'range forms used: {sorted(aggs)}: the value is not the open-ended remainder')
        else:
            raise AnchorLost('MdnsTxt::next: the key/value split uses an idiom this rule does not know')

    # ---- c --------------------------------------------------------------------
    with R.clause('c'):
        cands = [b for b in F.bodies.values() if b.focus and b.fn.startswith('pairing::') and any(c.startswith('verhoeff::') or 'Verhoeff' in c or 'verhoeff' in c for c in b.calls_summary)]
        R.floor('functions using the Verhoeff check digit', len(cands), 2)
        parsers = [b for b in cands if 'parse' in b.fn or 'decode' in b.fn or 'from' in b.fn.split('::')[-1]]
        R.floor('manual-code parser validating the check digit', len(parsers), 1)
        for b in parsers:
            oks = ok_return_bbs(b)
            vt = [t for t in b.calls() if 'erhoeff' in t.d.get('f', '') and ('valid' in t.d.get('f', '') or 'check' in t.d.get('f', ''))]
            if not oks or not vt:
                continue
            R.cut('P2', b, 'accept the manual pairing code (return Ok)', oks, 'the Verhoeff check digit validates',
                  lambda b=b, vt=vt: set().union(*[prims.track_result(F, b, t).success for t in vt]))
        qp = R.body('pairing::qr::QrPayload::parse')
        oks = ok_return_bbs(qp)
        R.cut('P2', qp, 'accept the QR payload (return Ok)', oks, 'the `MT:` prefix is present', lambda: R.call_guard(qp, 'core::str::<impl str>::strip_prefix'))
        R.cut('P2', qp, 'accept the QR payload (return Ok)', oks, 'the decoded payload has the minimum length',
              lambda: _lt_false(qp, lambda s: any(c.endswith('::len') for c in src_calls(s)), lambda s: any(x[0] == 'constp' and 'TOTAL_PAYLOAD_DATA_SIZE_IN_BYTES' in x[1] for x in s)))


def _lt_false(body, lp, rp):
    e = set()
    for bb, te, fe in prims.cmp_guard_edges(body, 'Lt', lp, rp, symmetric=False):
        e |= fe
    for bb, te, fe in prims.cmp_guard_edges(body, 'Ge', lp, rp, symmetric=False):
        e |= te
    return e
