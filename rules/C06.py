"""C06 - Every Interaction Model operation is mediated by the access check."""
from common import (mentions, closure_in, async_body, closure_arg_sites, ok_return_bbs, call_bbs, named_local, src_calls,
                    src_fields, src_consts, agg_flowing_to)
from facts import AnchorLost, op_place
import prims

EXPLANATION = """
Static structural rules over im/expand.rs, im/invoker.rs, im.rs, dm/types/{cluster,node}.rs:
(a) capability confinement, crate-wide: AttrDetails aggregates are built only in the two PathExpansionItem::expand impls
(and Clone), CmdDetails only in CmdDetails::new called from the command expand impl; PathExpansionItem::expand is called only
from PathExpander::next; PathExpander::next_for_path only from next; handlers are entered only via HandlerInvoker;
(b) per-leaf check: in next_for_path, `return Ok(Some(leaf))` and every mutation of the last_authorized cache are cut by
`check == Ok(true)`, and every definition of `check` that can be Ok(true) is either Result::map over a direct
check_cmd_access / check_attr_access call or the cache-hit constant cut by last_authorized == Some(triple); endpoint descent
is cut by Accessor::is_endpoint_accessible;
(c) each of check_attr_access / check_cmd_access / check_event_access returns Ok only on the TRUE edge of AccessReq::allow;
writes/commands: Ok is cut by (not TIMED_ONLY | timed | not a write); commands: Ok is cut by (not FAB_SCOPED | fab_idx != 0);
attributes: Ok is cut by target_perms.contains(operation);
(d) timed window: in im write/invoke the responder is reached only on the false edge of timed_out(..), whose arguments are
the interaction's timeout instant and the request's own timed flag; timed_out returns Ok(false) only when the flag matches
the presence of a timed request and the deadline has not passed; the expander's `timed` derives from req.timed_request();
(e) events: emission in the event reader is cut by validate_event_path / check_event_access;
(f) wildcard validation precedes the read / subscribe responders.
"""
CLAUSES = ['a: handler capabilities constructed only by the expander', 'b: per-leaf access check incl. inductive cache', 'c: the check evaluates the ACL, timed-only and fabric-scoped rules',
           'd: timed window enforcement', 'e: event access', 'f: wildcard validation before responding', 'g: a missing FabricFiltered flag never means unfiltered']
NOT_DECIDED = ['exact returned set and per-element status codes', 'per-cluster fabric-sensitive filtering', 'composition changing between chunks']
MIN_OBLIGATIONS = {'q': 40, 'd': 40, 'r': 40}

CL = 'dm::types::cluster::Cluster'
PE = 'im::expand::PathExpander'
IM = 'im::InteractionModel'
ACCESS = 'dm::types::privilege::Access::'
RES = 'core::result::Result'


def _contains_edges(F, body, const_suffix, want_true):
    e = set()
    n = 0
    for t in body.calls():
        if not t.d.get('f', '').endswith('::contains'):
            continue
        s = set()
        for a in t.d['a']:
            s |= prims.sources(body, a)
        if any(x[0] == 'constp' and x[1].endswith(const_suffix) for x in s):
            tr = prims.track_result(F, body, t)
            e |= tr.success if want_true else tr.failure
            n += 1
    return e, n


def check(R):
    F = R.facts
    # ---- a --------------------------------------------------------------------
    with R.clause('a'):
        pass
        EXP_ATTR = {'<im::encoding::attr::AttrData as im::expand::PathExpansionItem>::expand', '<im::expand::AttrReadPath as im::expand::PathExpansionItem>::expand'}
        EXP_CMD = '<im::encoding::invoke::CmdData as im::expand::PathExpansionItem>::expand'
        R.constructors_confined('P1', 'dm::types::attribute::AttrDetails', EXP_ATTR | {'<dm::types::attribute::AttrDetails as core::clone::Clone>::clone'}, min_sites=2)
        R.constructors_confined('P1', 'dm::types::command::CmdDetails', {'dm::types::command::CmdDetails::new'})
        R.callers_confined('P1', 'dm::types::command::CmdDetails::new', {EXP_CMD})
        R.callers_confined('P1', 'im::expand::PathExpansionItem::expand', {PE + '::next'})
        for e in EXP_ATTR | {EXP_CMD}:
            cs = F.callers_of(e)
            R.confine('P1', f'direct callers of {e}', cs, {PE + '::next'})
        R.callers_confined('P1', PE + '::next_for_path', {PE + '::next'})
        for m in ('read', 'write', 'invoke'):
            cs = {F.owner_fn(c) for c in F.callers_of(f'dm::types::handler::asynch::AsyncHandler::{m}')}
            allowed = {f'im::invoker::HandlerInvoker::{m}'}
            # delegating adapters (blanket impls and chained handlers) forward the same capability they were given
            deleg = {c for c in cs if c.startswith('<') and ' as dm::types::handler::' in c}
            R.confine('P1', f'non-delegating callers of AsyncHandler::{m}', cs - deleg, allowed | {c for c in cs if '::decl::' in c and False})
        nx = R.body(PE + '::next')
        exp_calls = nx.calls('im::expand::PathExpansionItem::expand')
        R.floor('expand() in PathExpander::next', len(exp_calls), 1)
        R.cut('P2', nx, 'PathExpansionItem::expand', [t.bb for t in exp_calls], 'next_for_path returned Ok(Some(leaf))',
              lambda: _ok_some(R, nx, PE + '::next_for_path'))

    # ---- b --------------------------------------------------------------------
    with R.clause('b'):
        pass
        nf = R.body(PE + '::next_for_path')
        chk = named_local(nf, 'check')
        ok_edges, _ = prims.enum_local_edges(F, nf, lambda pl: pl[0] in chk and len(pl) == 1, RES, ['Ok'])
        true_edges = set()
        for i, blk in enumerate(nf.bbs):
            t = blk['t']
            if t['t'] == 'switch' and not blk.get('c'):
                p = op_place(t['on'])
                if p and p[0] in chk and len(p) == 3 and p[1] == '@Ok':
                    for val, b in t['tg']:
                        if val != 0:
                            true_edges.add((i, b))
                    if all(v == 0 for v, b in t['tg']):
                        true_edges.add((i, t['else']))
        R.expect('P2', nf.fn, '`match check` distinguishes Ok(true)', bool(ok_edges) and bool(true_edges), f'{sorted(ok_edges)} / {sorted(true_edges)}', 'no switch on check')
        rets = [i for i, j, s in nf.stmts() if s[1].get('op') == 'agg' and s[1].get('var') == 'Some' and s[1].get('adt') == 'core::option::Option']
        rets = [i for i in rets if i in _flow_to_ok_return(nf)]
        R.floor('return Ok(Some(leaf)) sites', len(rets), 1)
        R.cut('P2', nf, 'return Ok(Some(leaf))', rets, 'check is Ok(_)', ok_edges)
        R.cut('P2', nf, 'return Ok(Some(leaf))', rets, 'check is Ok(true)', true_edges)
        # cache mutations
        la = 'last_authorized:' + PE
        muts = sorted({i for i, j, s in nf.field_writes(la)} | {i for i, j, s in nf.stmts() if s[1].get('op') == 'ref' and s[1].get('mut') and any(x == '.' + la for x in s[1]['pl'][1:] if isinstance(x, str))})
        R.floor('mutations of last_authorized in next_for_path', len(muts), 1)
        R.cut('P2', nf, 'mutate the last_authorized cache', muts, 'check is Ok(true)', true_edges)
        wr = {F.owner_fn(w) for w in F.writers.get(la, set())}
        nonnone = set()
        for w in F.writers.get(la, set()):
            b = F.bodies[w]
            if not b.focus:
                nonnone.add(F.owner_fn(w))
                continue
            for i, j, s in b.field_writes(la):
                srcs = set()
                for a in s[1].get('a', ()):
                    srcs |= prims.sources(b, a)
                if s[1].get('op') == 'agg' and s[1].get('var') == 'None':
                    continue
                if ('agg', 'core::option::Option', 'None') in srcs and not ('agg', 'core::option::Option', 'Some') in srcs and s[1].get('op') != 'agg':
                    continue
                nonnone.add(F.owner_fn(w))
        R.confine('P1', 'functions storing a non-None last_authorized', nonnone, {PE + '::next_for_path'})
        # other &mut borrows of the cache anywhere in the crate
        mb = set()
        for b in F.bodies.values():
            if b.focus and b.fn.startswith('im::expand') and b.fn != nf.fn:
                for i, j, s in b.stmts():
                    if s[1].get('op') == 'ref' and s[1].get('mut') and any(x == '.' + la for x in s[1]['pl'][1:] if isinstance(x, str)):
                        mb.add(F.owner_fn(b.fn))
        R.confine('P1', 'functions taking &mut last_authorized', mb, set())
        # definitions of `check`
        chk_all = set(chk)
        changed = True
        while changed:
            changed = False
            for i, j, s in nf.stmts():
                pl, rv = s[0], s[1]
                if len(pl) == 1 and pl[0] in chk_all and rv.get('op') == 'use':
                    src = op_place(rv['a'][0])
                    if src and len(src) == 1 and src[0] not in chk_all:
                        chk_all.add(src[0])
                        changed = True
        eq_edges = set()
        for t in nf.calls('core::cmp::PartialEq::eq'):
            s = set()
            for a in t.d['a']:
                s |= prims.sources(nf, a)
            if mentions(s, 'last_authorized'):
                eq_edges |= prims.track_result(F, nf, t).success
        ndefs = 0
        for l in chk_all:
            for (bb, idx, kind, payload) in nf.defs.get(l, ()):
                if nf.is_cleanup(bb):
                    continue
                if kind == 'assign':
                    rv = payload[1]
                    if rv.get('op') == 'use' and op_place(rv['a'][0]) and op_place(rv['a'][0])[0] in chk_all:
                        continue
                    ndefs += 1
                    if rv.get('op') == 'agg' and rv.get('var') == 'Ok':
                        v = rv['a'][0].get('k', {}).get('v')
                        if v == 0:
                            R.ok('P10', nf.fn, f'check = Ok(false) at {nf.where(bb, idx)}', 'filtered out', nf.where(bb, idx))
                        elif v == 1:
                            r = prims.reach(nf, (0,), cut_edges=eq_edges)
                            R.expect('P2', nf.fn, 'check = Ok(true) without a fresh access check only on a cache hit', bool(eq_edges) and bb not in r,
                                     'cut by last_authorized == Some(triple)', 'a constant Ok(true) is assigned to `check` without the cache-hit comparison', nf.where(bb, idx))
                        else:
                            R.fail('P10', nf.fn, 'check is assigned only from the access checks', f'unrecognised definition Ok({rv["a"][0]})', nf.where(bb, idx))
                    else:
                        R.fail('P10', nf.fn, 'check is assigned only from the access checks', f'unrecognised definition {rv.get("op")}', nf.where(bb, idx))
                elif kind == 'call':
                    ndefs += 1
                    cn = payload.get('f')
                    okd = False
                    if cn == 'core::result::Result::map':
                        a0 = op_place(payload['a'][0])
                        if a0 and len(a0) == 1:
                            ds = nf.defs.get(a0[0], ())
                            okd = len(ds) == 1 and ds[0][2] == 'call' and ds[0][3].get('f') in (CL + '::check_cmd_access', CL + '::check_attr_access')
                    R.expect('P10', nf.fn, f'check <= {cn} at {nf.where(bb)} is Result::map over a direct check_*_access call', okd,
                             'map(check_*_access(..))', f'`check` is assigned from {cn}, not from an access check', nf.where(bb))
        R.floor('definitions of `check`', ndefs, 4)
        # accessor / timed provenance of the two checks
        for cn in (CL + '::check_cmd_access', CL + '::check_attr_access'):
            t = nf.calls(cn)[0]
            sa, st = prims.sources(nf, t.d['a'][1]), prims.sources(nf, t.d['a'][2])
            R.expect('P10', nf.fn, f'{cn.split("::")[-1]} is given the expander\'s accessor and timed flag', mentions(sa, 'accessor') and mentions(st, 'timed'),
                     'self.accessor, self.timed', f'{sorted(map(str, sa))[:4]} / {sorted(map(str, st))[:4]}', nf.where(t.bb))
            # the leaf id checked is the leaf id returned
        R.cut('P2', nf, 'descend into an endpoint (check_*_access / return)', call_bbs(nf, CL + '::check_cmd_access', CL + '::check_attr_access') + rets,
              'Accessor::is_endpoint_accessible == true', lambda: R.call_guard(nf, 'acl::Accessor::is_endpoint_accessible'))

    # ---- c --------------------------------------------------------------------
    with R.clause('c'):
        pass
        for fn in ('check_attr_access', 'check_cmd_access', 'check_event_access'):
            b = R.body(CL + '::' + fn)
            oks = ok_return_bbs(b)
            R.floor(f'Ok returns of {fn}', len(oks), 1)
            R.cut('P2', b, 'return Ok(())', oks, 'AccessReq::allow == true', lambda b=b: R.call_guard(b, 'acl::AccessReq::allow'))
            t = b.calls('acl::AccessReq::new')
            R.floor(f'AccessReq::new in {fn}', len(t), 1)
            sa = prims.sources(b, t[0].d['a'][0])
            R.expect('P10', b.fn, 'the request evaluated is for the accessor parameter', ('arg', 2) in sa, 'AccessReq::new(accessor, ..)', f'{sorted(map(str, sa))[:4]}')
            sp = b.calls('acl::AccessReq::set_target_perms')
            R.floor(f'set_target_perms in {fn}', len(sp), 1)
            bad = prims.precedes(b, [sp[0].bb], call_bbs(b, 'acl::AccessReq::allow'))
            R.expect('P3', b.fn, 'the element\'s declared access is installed before allow()', not bad, 'set_target_perms precedes allow', 'allow() reachable without set_target_perms')
            if fn in ('check_attr_access', 'check_cmd_access'):
                def timed_edges(b=b, fn=fn):
                    e, n = _contains_edges(F, b, ACCESS + 'TIMED_ONLY', False)
                    if n < 1:
                        return set()
                    for l in range(1, b.argc + 1):
                        if b.local_name(l) == 'timed':
                            e |= prims.bool_local_edges(b, l)[0]
                        if b.local_name(l) == 'write':
                            e |= prims.bool_local_edges(b, l)[1]
                    return e
                R.cut('P2', b, 'return Ok(())', oks, 'not TIMED_ONLY, or timed' + (', or a read' if fn == 'check_attr_access' else ''), timed_edges)
            if fn == 'check_cmd_access':
                def fab_edges(b=b):
                    e, n = _contains_edges(F, b, ACCESS + 'FAB_SCOPED', False)
                    if n < 1:
                        return set()
                    for bb, te, fe in prims.cmp_guard_edges(b, 'Eq', lambda s: mentions(s, 'fab_idx'), lambda s: 0 in src_consts(s)):
                        e |= fe
                    return e
                R.cut('P2', b, 'return Ok(())', oks, 'not FAB_SCOPED, or the accessor has a fabric', fab_edges)
            if fn == 'check_attr_access':
                def op_edges(b=b):
                    e = set()
                    for t in b.calls():
                        if t.d.get('f', '').endswith('::contains'):
                            s = set()
                            for a in t.d['a'][1:]:
                                s |= prims.sources(b, a, through={'acl::AccessReq::operation'})
                            if 'acl::AccessReq::operation' in src_calls(s):
                                e |= prims.track_result(F, b, t).success
                    return e
                R.cut('P2', b, 'return Ok(())', oks, 'target_perms.contains(operation)', op_edges)
        R.callers_confined('P1', CL + '::check_cmd_access', {PE + '::next_for_path'})

    # ---- d --------------------------------------------------------------------
    with R.clause('d'):
        pass
        for fn, resp in (('write', 'im::WriteResponder::respond'), ('invoke', 'im::InvokeResponder::respond')):
            co = async_body(R, IM + '::' + fn)
            rs = co.calls(resp)
            R.floor(f'{resp} in {fn}', len(rs), 1)

            def notimed(co=co):
                e = set()
                for t in co.calls(IM + '::timed_out'):
                    tr = prims.track_result(F, co, t, inner=1)
                    e |= tr.failure
                return e
            R.cut('P2', co, 'run the ' + fn + ' responder (every chunk)', [t.bb for t in rs], 'timed_out(..) == false', notimed, per_visit=True)
            to = co.calls(IM + '::timed_out')
            R.floor('timed_out call', len(to), 1)
            s_inst, s_flag = prims.sources(co, to[0].d['a'][2]), prims.sources(co, to[0].d['a'][3], through={'im::encoding::write::WriteReq::timed_request', 'im::encoding::invoke::InvReq::timed_request'})
            R.expect('P10', co.fn, 'timed_out receives the interaction\'s timeout instant and the request\'s own timed flag',
                     (mentions(s_inst, 'timeout_instant') or any(x[0] == 'upvar' and 'timeout_instant' in x[1] for x in s_inst)) and any(c.endswith('::timed_request') for c in src_calls(s_flag)),
                     'timed_out(exchange, timeout_instant, req.timed_request()?)', f'{sorted(map(str, s_inst))[:4]} / {sorted(map(str, s_flag))[:4]}', co.where(to[0].bb))
        to = async_body(R, IM + '::timed_out')
        status = named_local(to, 'status')
        nones = agg_flowing_to(to, status, 'None')
        R.floor('status = None in timed_out', len(nones), 1)
        R.cut('P2', to, 'status = None (not timed out)', nones, 'timed_req == timeout_instant.is_some()',
              lambda: _cmp_false(to, 'Ne', lambda s: ('arg', 1) in s or any(x[0] == 'upvar' and 'timed_req' in x[1] for x in s) or mentions(s, 'timed_req'),
                                 lambda s: 'core::option::Option::is_some' in src_calls(s)))
        R.cut('P2', to, 'status = None (not timed out)', nones, 'deadline not passed',
              lambda: _fail_edges(R, to, 'core::option::Option::unwrap_or'))
        falses = [i for i, j, s in to.stmts() if s[1].get('op') == 'agg' and s[1].get('var') == 'Ok' and s[1]['a'] and s[1]['a'][0].get('k', {}).get('v') == 0]
        R.floor('Ok(false) in timed_out', len(falses), 1)
        se, _ = prims.enum_local_edges(F, to, lambda pl: pl[0] in status and len(pl) == 1, 'core::option::Option', ['None'])
        R.cut('P2', to, 'return Ok(false)', falses, 'status is None', se)
        dl = closure_in(R, IM + '::timed_out', ['Instant::now'])
        cs = prims.compare_sites(dl)
        okc = False
        for (bb, j, op, a1, a2, d) in cs:
            l_now = any(c.endswith('Instant::now') for c in src_calls(prims.sources(dl, a1)))
            r_now = any(c.endswith('Instant::now') for c in src_calls(prims.sources(dl, a2)))
            okc = okc or (op in ('Gt', 'Ge') and l_now and not r_now) or (op in ('Lt', 'Le') and r_now and not l_now)
        pc = [t for t in dl.calls() if t.d.get('f', '') in ('core::cmp::PartialOrd::gt', 'core::cmp::PartialOrd::ge')]
        for t in pc:
            l_now = any(c.endswith('Instant::now') for c in src_calls(prims.sources(dl, t.d['a'][0])))
            r_now = any(c.endswith('Instant::now') for c in src_calls(prims.sources(dl, t.d['a'][1])))
            okc = okc or (l_now and not r_now)
        R.expect('P10', dl.fn, 'expiry test is now > deadline', okc, 'Instant::now() > timeout_instant', f'comparisons {[(c[2]) for c in cs]} calls {[t.d.get("f") for t in pc]}')
        # the expander's `timed` comes from the request (and the read expansion is never timed)
        for fn in ('im::expand::expand_write', 'im::expand::expand_invoke'):
            b = R.body(fn)
            t = b.calls('im::expand::PathExpanderIterator::new')
            R.floor(f'PathExpanderIterator::new in {fn}', len(t), 1)
            s = prims.sources(b, t[0].d['a'][2], through={'im::encoding::write::WriteReq::timed_request', 'im::encoding::invoke::InvReq::timed_request'})
            R.expect('P10', fn, 'the expander\'s timed flag derives from req.timed_request() and the accessor is the caller\'s',
                     any(c.endswith('::timed_request') for c in src_calls(s)) and not [c for c in src_consts(s) if c is not None] and ('arg', 3) in prims.sources(b, t[0].d['a'][1]),
                     'PathExpanderIterator::new(metadata, accessor, req.timed_request()?, ..)', f'{sorted(map(str, s))[:5]}', b.where(t[0].bb))
        pin = R.body('im::expand::PathExpanderIterator::new')
        t = pin.calls(PE + '::new')
        R.floor('PathExpander::new in PathExpanderIterator::new', len(t), 1)
        R.expect('P10', pin.fn, 'accessor and timed are handed to the expander unchanged',
                 ('arg', 2) in prims.sources(pin, t[0].d['a'][0]) and ('arg', 3) in prims.sources(pin, t[0].d['a'][1]), 'PathExpander::new(accessor, timed, ..)',
                 f'{sorted(map(str, prims.sources(pin, t[0].d["a"][0])))[:3]} / {sorted(map(str, prims.sources(pin, t[0].d["a"][1])))[:3]}')
        for fld, argn in (('accessor', 1), ('timed', 2)):
            R.writers_confined('P1', f'{fld}:{PE}', {PE + '::new'}, min_sites=0)

    # ---- e --------------------------------------------------------------------
    with R.clause('e'):
        pass
        vep = R.body('dm::types::node::Node::validate_event_path')
        R.expect('P4', vep.fn, 'event path validation reaches check_event_access', CL + '::check_event_access' in vep.calls_summary or any(CL + '::check_event_access' in b.calls_summary for b in F.nested(vep.fn)),
                 'validate_event_path -> check_event_access', 'check_event_access not called')
        rd = prims.result_defs(vep)
        okaggs = [bb for bb, k, p in rd if k == 'agg' and p.get('var') == 'Ok']
        tails = [(bb, p) for bb, k, p in rd if k == 'call']
        R.expect('P10', vep.fn, 'a concrete event path returns the verdict of check_event_access',
                 any(p.get('f') == CL + '::check_event_access' for bb, p in tails) and all(p.get('f') in (CL + '::check_event_access', 'core::ops::try_trait::FromResidual::from_residual') for bb, p in tails),
                 'tail call check_event_access', f'{[p.get("f") for bb, p in tails]}')
        if okaggs:
            def wildcard():
                e = set()
                for t in vep.calls('dm::types::node::Node::validate_cluster_path'):
                    e |= prims.track_result(F, vep, t, inner=1).failure
                return e
            R.cut('P2', vep, 'return Ok(()) without an event access check', okaggs, 'the path is a wildcard (validate_cluster_path returned None)', wildcard)
        R.callers_confined('P1', CL + '::check_event_access', {'dm::types::node::Node::validate_event_path'})
        users = sorted({F.owner_fn(c) for c in F.callers_of('dm::types::node::Node::validate_event_path')})
        R.expect('P4', 'im::events', 'the event reader filters by validate_event_path', any(u.startswith('im::events') or u.startswith('im::') for u in users),
                 f'callers: {users}', f'callers: {users}')
        for u in users:
            for b in [x for x in F.bodies.values() if x.focus and F.owner_fn(x.fn) == u and 'dm::types::node::Node::validate_event_path' in x.calls_summary]:
                from common import result_used
                result_used(R, 'P8', b, ('dm::types::node::Node::validate_event_path',))

    # ---- f --------------------------------------------------------------------
    with R.clause('f'):
        pass
        rd = async_body(R, IM + '::read')
        resp = [t.bb for t in rd.calls() if t.d.get('f', '').endswith('ReportDataResponder::respond') or t.d.get('f', '') == IM + '::report_data' or t.d.get('f', '').endswith('::respond')]
        R.floor('responder call in read', len(resp), 1)
        R.cut('P2', rd, 'run the read responder', resp, 'validate_read ok', lambda: R.call_guard(rd, IM + '::validate_read'))
        sb = async_body(R, IM + '::subscribe')
        resp = [t.bb for t in sb.calls() if t.d.get('f', '') == IM + '::report_data' or t.d.get('f', '').endswith('::respond')]
        R.floor('responder call in subscribe', len(resp), 1)
        R.cut('P2', sb, 'prime the subscription', resp, 'validate_subscribe ok', lambda: R.call_guard(sb, IM + '::validate_subscribe'))

    # ---- g --------------------------------------------------------------------
    with R.clause('g'):
        # fabric-sensitive data: the fabric filter that reaches the handlers is the request's FabricFiltered flag. A request without a
        # (decodable) flag is refused, or treated as FILTERED - it never silently becomes "unfiltered"
        sites = [(b, t) for b in F.bodies.values() if b.focus and b.fn.lstrip('<').startswith('im') and '::tests::' not in b.fn and '::fmt' not in b.fn for t in b.calls()
                 if t.d.get('f', '').endswith('::fabric_filtered')]
        R.floor('reads of the FabricFiltered flag', len(sites), 2)
        for n, (b, t) in enumerate(sorted(sites, key=lambda x: (x[0].fn, x[1].line))):
            tr = prims.track_result(F, b, t)
            dflt = sorted({c[0] for c in tr.passed_to if isinstance(c[0], str) and c[0].endswith(('::unwrap_or', '::unwrap_or_default', '::unwrap_or_else', '::ok', '::unwrap'))})
            ok_ = (bool(tr.failure) or tr.returned) and not dflt
            why = 'the decoding error is tested / propagated' if tr.failure else 'handed on unchanged to the caller (judged at its call site)'
            if dflt:
                # a default is acceptable only if it is the constant `true`
                ds = [c_ for c_ in b.calls() if (c_.d.get('f', '').endswith(tuple(dflt))) and any(x[0] == 'call' and x[2] == t.bb for x in prims.sources(b, c_.d['a'][0]))]
                consts = [c_.d['a'][1].get('k', {}).get('v') for c_ in ds if len(c_.d['a']) > 1]
                ok_ = bool(ds) and all(c_.d.get('f', '').endswith('::unwrap_or') for c_ in ds) and all(v == 1 for v in consts) and bool(consts)
                why = 'defaulted to `true` (filtered)'
            R.expect('P8', b.fn, f'FabricFiltered read #{n + 1}: a missing / undecodable flag is refused or means FILTERED', ok_, why,
                     f'the flag is defaulted through {dflt or "?"} to something other than `true`: a request that omits FabricFiltered is served with every fabric\'s fabric-scoped entries', b.where(t.bb))



def _ok_some(R, body, callee):
    e = set()
    for t in body.calls(callee):
        tr = prims.track_result(R.facts, body, t)
        inner = prims.track_result(R.facts, body, t, inner=1)
        if not tr.success or not inner.success:
            from facts import GuardMissing
            raise GuardMissing(f'{callee} result not matched on Ok(Some)')
        e |= inner.success
    return e


def _flow_to_ok_return(body):
    """blocks building Some(..) that ends up in Ok(Some(..)) returned"""
    out = set()
    oks = {}
    for i, j, s in body.stmts():
        rv = s[1]
        if rv.get('op') == 'agg' and rv.get('var') == 'Ok' and rv.get('adt') == RES:
            for a in rv['a']:
                p = op_place(a)
                if p and len(p) == 1:
                    oks[p[0]] = i
    for i, j, s in body.stmts():
        rv = s[1]
        if rv.get('op') == 'agg' and rv.get('var') == 'Some' and len(s[0]) == 1 and s[0][0] in oks:
            out.add(i)
    return out


def _cmp_false(body, op, lp, rp):
    e = set()
    for bb, te, fe in prims.cmp_guard_edges(body, op, lp, rp):
        e |= fe
    return e


def _fail_edges(R, body, callee):
    e = set()
    for t in body.calls(callee):
        e |= prims.track_result(R.facts, body, t).failure
    return e
