"""Loader and indexes over the rsm-facts JSON-lines fact file (engine E2).

Everything here reads facts produced by the rustc_private extractor from the
type-checked, pre-borrowck MIR (mir_promoted) of /repo's rs-matter.  Nothing in
this package executes rs-matter code.
"""
import json
import re
from collections import defaultdict


_NP_CACHE = {}


def np(path):
    """Normalise a def path: drop generic-argument segments `::<'a, C>` (but keep
    `<impl ..>` and `<T as Trait>` heads) and print std re-exports as core, so
    that anchors survive the addition of a lifetime or type parameter."""
    r = _NP_CACHE.get(path)
    if r is not None:
        return r
    out = []
    i = 0
    n = len(path)
    while i < n:
        if path.startswith('::<', i) and not path.startswith('::<impl', i):
            # skip balanced <...>
            depth = 0
            j = i + 2
            while j < n:
                c = path[j]
                if c == '<':
                    depth += 1
                elif c == '>' and path[j - 1] != '-':
                    depth -= 1
                    if depth == 0:
                        break
                j += 1
            i = j + 1
            continue
        out.append(path[i])
        i += 1
    r = ''.join(out)
    if "'" in r:
        r = re.sub(r"<'\w+>", '', r)
        r = re.sub(r"'\w+, ", '', r)
        r = re.sub(r"&'\w+ ", '&', r)
    for a, b in (('std::', 'core::'), ('alloc::', 'core::')):
        if r.startswith(a):
            r = b + r[len(a):]
    r = r.replace('<std::', '<core::').replace(' std::', ' core::')
    _NP_CACHE[path] = r
    return r


class AnchorLost(Exception):
    """A rule's anchor (function, field, call site) no longer resolves, or a
    site count fell below the hand-counted floor.  The check cannot decide."""


class GuardMissing(Exception):
    """A guard call/branch the rule needs is absent from an existing function:
    reported as the violation itself."""


class Unrecognised(Exception):
    """A guard form outside the closed list of recognised idioms."""


def op_place(o):
    """operand -> place list [local, proj...] or None for constants"""
    if 'c' in o:
        return o['c']
    if 'm' in o:
        return o['m']
    return None


def op_local(o):
    p = op_place(o)
    return p[0] if p is not None else None


def op_const(o):
    return o.get('k')


class Term:
    __slots__ = ('bb', 'd')

    def __init__(self, bb, d):
        self.bb = bb
        self.d = d

    @property
    def kind(self):
        return self.d['t']

    @property
    def line(self):
        return self.d.get('ln', 0)

    def callee_names(self):
        """All names a call may be known under: declared path, resolved path."""
        n = []
        if 'f' in self.d:
            n.append(self.d['f'])
        if 'r' in self.d:
            n.append(self.d['r'])
        return n

    def __repr__(self):
        return f"<{self.kind}@bb{self.bb} {self.d.get('f', '')} ln{self.line}>"


class Body:
    def __init__(self, rec):
        self.rec = rec
        self.fn = np(rec['fn'])
        self.kind = rec['kind']
        self.parent = np(rec['parent'])
        self.root = np(rec['root'])
        self.file = rec['file']
        self.line = rec['line']
        self.focus = rec['focus']
        self.argc = rec['argc']
        self.calls_summary = {np(c) for c in rec['calls']}
        self.aggs_summary = set(rec['aggs'])
        self.clos_summary = {np(c) for c in rec['clos']}
        self.fw_summary = set(rec['fw'])
        self.fnrefs = {np(c) for c in rec.get('fnrefs', ())}
        self._bbs = rec.get('bbs')
        self._normed = False
        self.locals = rec.get('locals')
        self._succ = None
        self._pred = None
        self._defs = None
        self._uses = None

    @property
    def bbs(self):
        if not self._normed and self._bbs is not None:
            for b in self._bbs:
                t = b['t']
                if 'f' in t:
                    t['f'] = np(t['f'])
                if 'r' in t:
                    t['r'] = np(t['r'])
                for s in b['s']:
                    rv = s[1]
                    if 'clo' in rv:
                        rv['clo'] = np(rv['clo'])
                    if 'adt' in rv:
                        rv['adt'] = np(rv['adt'])
                    for a in rv.get('a', ()):
                        k = a.get('k')
                        if k and 'fn' in k:
                            k['fn'] = np(k['fn'])
                for a in t.get('a', ()):
                    k = a.get('k')
                    if k and 'fn' in k:
                        k['fn'] = np(k['fn'])
            self._normed = True
        return self._bbs

    # ---- CFG -------------------------------------------------------------
    def term(self, bb):
        return Term(bb, self.bbs[bb]['t'])

    def is_cleanup(self, bb):
        return self.bbs[bb].get('c') == 1

    def succ_edges(self, bb, unwind=False):
        """normal-flow successor list [(target, label)]"""
        t = self.bbs[bb]['t']
        k = t['t']
        out = []
        if k in ('goto', 'drop', 'assert', 'funwind'):
            out.append((t['to'], k))
        elif k == 'fedge':
            # the imaginary edge exists only for borrowck; the real one is control flow
            out.append((t['to'], k))
        elif k in ('call',):
            if t['to'] is not None:
                out.append((t['to'], 'ret'))
        elif k == 'switch':
            for v, b in t['tg']:
                out.append((b, v))
            out.append((t['else'], 'else'))
        elif k == 'yield':
            out.append((t['to'], 'resume'))
            # the drop edge is cancellation, handled separately
        if unwind and t.get('uw') is not None:
            out.append((t['uw'], 'unwind'))
        return out

    @property
    def succ(self):
        if self._succ is None:
            self._succ = [sorted(set(b for b, _ in self.succ_edges(i))) for i in range(len(self.bbs))]
        return self._succ

    @property
    def pred(self):
        if self._pred is None:
            p = [[] for _ in self.bbs]
            for i, ss in enumerate(self.succ):
                for s in ss:
                    p[s].append(i)
            self._pred = p
        return self._pred

    def reachable(self, starts, cut_edges=(), cut_blocks=()):
        """Forward reachability over normal (non-unwind) edges from the *start*
        of each block in `starts`; edges in cut_edges {(from,to)} and blocks in
        cut_blocks are removed."""
        cut_edges = set(cut_edges)
        cut_blocks = set(cut_blocks)
        seen = set()
        work = [s for s in starts if s not in cut_blocks]
        while work:
            b = work.pop()
            if b in seen:
                continue
            seen.add(b)
            for s in self.succ[b]:
                if (b, s) in cut_edges or s in cut_blocks or s in seen:
                    continue
                work.append(s)
        return seen

    def ret_blocks(self):
        return [i for i, b in enumerate(self.bbs) if b['t']['t'] == 'ret']

    def yield_blocks(self):
        return [i for i, b in enumerate(self.bbs) if b['t']['t'] == 'yield']

    # ---- sites -----------------------------------------------------------
    def calls(self, *names, contains=None):
        """Call terminators whose declared or resolved callee is one of names
        (exact def-path match) or contains the substring."""
        out = []
        for i, b in enumerate(self.bbs):
            t = b['t']
            if t['t'] not in ('call', 'tailcall'):
                continue
            if self.is_cleanup(i):
                continue
            cn = []
            if 'f' in t:
                cn.append(t['f'])
            if 'r' in t:
                cn.append(t['r'])
            if names and any(c in names for c in cn):
                out.append(Term(i, t))
            elif contains and any(contains in c for c in cn):
                out.append(Term(i, t))
            elif not names and not contains:
                out.append(Term(i, t))
        return out

    def stmts(self):
        for i, b in enumerate(self.bbs):
            if self.is_cleanup(i):
                continue
            for j, s in enumerate(b['s']):
                yield i, j, s

    def field_writes(self, field):
        """(bb, idx, stmt) of assignments whose place ends in the named field
        ('name:Adt::Path').  Deref/index projections after the field do not
        count as a write of the field itself unless whole=False."""
        key = '.' + field
        out = []
        for i, j, s in self.stmts():
            pl = s[0]
            projs = [p for p in pl[1:] if isinstance(p, str)]
            if not projs:
                continue
            # last field projection
            lastf = None
            for p in projs:
                if p.startswith('.'):
                    lastf = p
            if lastf == key:
                out.append((i, j, s))
        return out

    def aggregates(self, adt, variant=None):
        out = []
        for i, j, s in self.stmts():
            rv = s[1]
            if rv.get('op') == 'agg' and rv.get('adt') == adt:
                if variant is None or rv.get('var') == variant:
                    out.append((i, j, s))
        return out

    def closures_built(self):
        out = []
        for i, j, s in self.stmts():
            rv = s[1]
            if rv.get('op') == 'agg' and 'clo' in rv:
                out.append((i, j, s, rv['clo']))
        return out

    # ---- def/use ---------------------------------------------------------
    @property
    def defs(self):
        """local -> list of (bb, idx|'t', kind, payload); kind in
        {'assign','call','yield'}; partial (projected) assignments included
        with kind 'passign'."""
        if self._defs is None:
            d = defaultdict(list)
            for i, b in enumerate(self.bbs):
                for j, s in enumerate(b['s']):
                    pl = s[0]
                    d[pl[0]].append((i, j, 'assign' if len(pl) == 1 else 'passign', s))
                t = b['t']
                if t['t'] == 'call':
                    pl = t['d']
                    d[pl[0]].append((i, 't', 'call' if len(pl) == 1 else 'pcall', t))
                elif t['t'] == 'yield':
                    pl = t['ra']
                    d[pl[0]].append((i, 't', 'yield', t))
            self._defs = d
        return self._defs

    def local_ty(self, l):
        return self.locals[l][0] if self.locals else ''

    def local_name(self, l):
        if self.locals and len(self.locals[l]) > 1:
            return self.locals[l][1]
        return None

    def where(self, bb, idx=None):
        b = self.bbs[bb]
        if idx is None or idx == 't':
            ln = b['t'].get('ln', 0)
        else:
            ln = b['s'][idx][2]
        return f"{self.file}:{ln}"


class Facts:
    def __init__(self, path):
        self.path = path
        self.hdr = None
        self.bodies = {}
        self.adts = {}
        self.consts = {}
        self.fnitems = {}
        self.impls = []
        self.stolen = []
        with open(path) as f:
            for line in f:
                r = json.loads(line)
                k = r['k']
                if k == 'body':
                    b = Body(r)
                    self.bodies[b.fn] = b
                elif k == 'adt':
                    r['path'] = np(r['path'])
                    self.adts[r['path']] = r
                elif k == 'const':
                    self.consts[r['path']] = r
                elif k == 'fnitem':
                    self.fnitems[np(r['path'])] = r
                elif k == 'impl':
                    r['trait'] = np(r['trait'])
                    r['methods'] = [[np(a), np(b)] for a, b in r['methods']]
                    self.impls.append(r)
                elif k == 'hdr':
                    self.hdr = r
                elif k == 'stolen':
                    self.stolen.append(np(r['fn']))
        self._callers = None
        self._constructors = None
        self._writers = None
        self._impl_of = None

    # ---- lookups (fail closed) ---------------------------------------------
    def body(self, path):
        b = self.bodies.get(path)
        if b is None:
            raise AnchorLost(f"function {path} not found in the compiled crate")
        if not b.focus:
            raise AnchorLost(f"function {path} has call-only facts")
        return b

    def find_bodies(self, regex):
        rx = re.compile(regex)
        return [b for p, b in self.bodies.items() if rx.search(p)]

    def nested(self, root_path):
        """closures / coroutines nested in a function (transitively)"""
        return [b for b in self.bodies.values() if b.root == root_path and b.fn != root_path]

    def closure_by_content(self, root_path, must_call=(), must_contain=None):
        """Locate closures nested under root that call all of must_call."""
        out = []
        for b in self.nested(root_path):
            if all(any(c == m or c.endswith(m) for c in b.calls_summary) for m in must_call):
                out.append(b)
        return out

    def const_val(self, path):
        c = self.consts.get(path)
        if c is None or c['v'] is None:
            raise AnchorLost(f"constant {path} not found / not a scalar")
        return c['v']

    def adt(self, path):
        a = self.adts.get(path)
        if a is None:
            raise AnchorLost(f"type {path} not found")
        return a

    def variant_discr(self, adt_path, variant):
        a = self.adt(adt_path)
        for v in a['variants']:
            if v['n'] == variant:
                return v['d']
        raise AnchorLost(f"variant {adt_path}::{variant} not found")

    def variant_of_discr(self, adt_path, d):
        a = self.adts.get(adt_path)
        if not a:
            return None
        for v in a['variants']:
            if v['d'] == d:
                return v['n']
        return None

    # ---- crate-wide confinement indexes -----------------------------------
    @property
    def callers(self):
        if self._callers is None:
            c = defaultdict(set)
            for p, b in self.bodies.items():
                for callee in b.calls_summary:
                    c[callee].add(p)
                for callee in b.fnrefs:
                    c[callee].add(p)
            self._callers = c
        return self._callers

    def callers_of(self, path):
        return set(self.callers.get(path, ()))

    @property
    def constructors(self):
        if self._constructors is None:
            c = defaultdict(set)
            for p, b in self.bodies.items():
                for a in b.aggs_summary:
                    c[a].add(p)
            self._constructors = c
        return self._constructors

    @property
    def writers(self):
        if self._writers is None:
            c = defaultdict(set)
            for p, b in self.bodies.items():
                for a in b.fw_summary:
                    c[a].add(p)
            self._writers = c
        return self._writers

    def impls_of_trait(self, trait):
        return [i for i in self.impls if i['trait'] == trait]

    def has_impl(self, trait, adt):
        return any(i['trait'] == trait and i['adt'] == adt for i in self.impls)

    def trait_method_impls(self, trait_method):
        """all in-crate impl fns for a trait method path"""
        if self._impl_of is None:
            m = defaultdict(set)
            for i in self.impls:
                for tm, im in i['methods']:
                    if tm:
                        m[tm].add(im)
            self._impl_of = m
        return self._impl_of.get(trait_method, set())

    def owner_fn(self, body_path):
        """Strip ::{closure#n} suffixes: the named function a body belongs to."""
        return re.sub(r'(::\{closure#\d+\})+$', '', body_path)
