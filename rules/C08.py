"""C08 - Commissioning under the fail-safe is all-or-nothing."""
from common import (mentions, closure_in, async_body, closure_arg_sites, ok_return_bbs, call_bbs, named_local, src_calls,
                    src_fields, src_consts, bodies_of, result_used)
from facts import AnchorLost, op_place
import prims

EXPLANATION = """
Static structural rules over failsafe.rs and the commissioning cluster handlers:
(a) in every FailSafe mutator (add_trusted_root_cert, add_csr_req, update_csr_req, update_noc, add_noc, disarm, the re-arm
branch of arm) every write to FailSafe / ArmedCtx state - direct field writes, calls receiving `&mut self.<field>`, add_flags,
Fabrics::add / update - is unreachable once the success edge of check_state is deleted; check_state's Ok is cut by the armed test,
the plaintext-session test, the fabric-index equality, flags.contains(present) and flags.intersection(absent).is_empty();
(b) the once-each/in-order table: from the constant flag arguments of each check_state call: op != 0 => op subset of absent; the
flag recorded with add_flags equals op; add_noc.present = ROOT|ADD_CSR; update_noc.present = UPDATE_CSR; update_noc.absent
contains ROOT|ADD_NOC|ADD_CSR; add_noc.absent contains UPDATE_CSR|UPDATE_NOC;
(c) credentials are validated before installation: Fabrics::add / update are cut by validate_certs success and by the CSR
public-key comparison;
(d) uncommitted state is not persisted: every FabricPersist::store call outside CommissioningComplete is cut by the false edge
of FailSafe::is_armed_for(fab) (one site: has_pending_noc_for) evaluated for the fabric being stored;
(e) commit: in CommissioningComplete the fabric store and the networks store precede the success answer and their errors
propagate; the durable stores must succeed before the fail-safe is disarmed (violated on the pinned tree: finding F10);
(f) roll-back: FailSafe::expire reloads the persisted fabric copy and the persisted networks, removes PASE sessions, returns to
Idle and zeroes the breadcrumb on every path.
"""
CLAUSES = ['a: preconditions guard every mutation', 'b: once each, in order (flag table)', 'c: certificates checked before installation',
           'd: uncommitted fabric state is not persisted', 'e: commit ordering and error propagation', 'f: roll-back restores from storage (fabric and networks, unconditionally) and gets through when the fabric is gone already']
NOT_DECIDED = ['equality of the whole configuration before arming and after expiry', 'crash atomicity of individual key-value writes']
MIN_OBLIGATIONS = {'q': 45, 'd': 40, 'r': 45}

FS = 'failsafe::FailSafe'
NF = 'failsafe::NocFlags::'
ADTS = (FS, 'failsafe::ArmedCtx')


def _flag_value(F, body, operand):
    srcs = prims.sources(body, operand, through={'core::ops::bit::BitOr::bitor'})
    names = {x[1] for x in srcs if x[0] == 'constp' and x[1].startswith(NF)}
    v = 0
    for n in names:
        v |= F.const_val(n)
    empty = any(c.endswith('::empty') for c in src_calls(srcs))
    if not names and not empty:
        return None
    return v


def _state_mutations(body):
    """blocks that mutate FailSafe / ArmedCtx state"""
    out = set()
    for i, j, s in body.stmts():
        pl, rv = s[0], s[1]
        if any(isinstance(x, str) and x.startswith('.') and x.split(':', 1)[1].startswith(ADTS) for x in pl[1:]):
            out.add(i)
        if rv.get('op') == 'ref' and rv.get('mut'):
            p = rv['pl']
            if any(isinstance(x, str) and x.startswith('.') and x.split(':', 1)[1].startswith(ADTS) for x in p[1:]):
                out.add(i)
    for t in body.calls(FS + '::add_flags', 'fabric::Fabrics::add', 'fabric::Fabrics::update'):
        out.add(t.bb)
    return sorted(out)


def check(R):
    F = R.facts
    c = {n: F.const_val(NF + n) for n in ('ADD_CSR_REQ_RECVD', 'UPDATE_CSR_REQ_RECVD', 'ADD_ROOT_CERT_RECVD', 'ADD_NOC_RECVD', 'UPDATE_NOC_RECVD')}
    R.expect('P6', NF, 'the five command flags are distinct single bits', len(set(c.values())) == 5 and all(v and v & (v - 1) == 0 for v in c.values()), str(c), str(c))
    # ---- a / b ----------------------------------------------------------------
    with R.clause('a / b'):
        pass
        table = {}
        for m in ('add_trusted_root_cert', 'add_csr_req', 'update_csr_req', 'update_noc', 'add_noc', 'disarm'):
            b = R.body(FS + '::' + m)
            muts = _state_mutations(b)
            R.floor(f'state mutations in {m}', len(muts), 1)
            if m == 'disarm' and b.calls(FS + '::check_disarm'):
                # disarm = check_disarm (the validation half, usable before the durable stores) + the state change
                R.cut('P2', b, f'mutate fail-safe state in {m}', muts, 'check_disarm ok', lambda b=b: R.call_guard(b, FS + '::check_disarm'))
                b = R.body(FS + '::check_disarm')
                R.expect('P1', b.fn, 'check_disarm changes no fail-safe state', not _state_mutations(b), 'no writes', 'check_disarm writes fail-safe state')
                R.cut('P2', b, 'report that disarm would succeed (return Ok)', ok_return_bbs(b), 'check_state ok', lambda b=b: R.call_guard(b, FS + '::check_state'))
            else:
                R.cut('P2', b, f'mutate fail-safe state in {m}', muts, 'check_state ok', lambda b=b: R.call_guard(b, FS + '::check_state'))
            t = b.calls(FS + '::check_state')[0]
            pres, absn, op = (_flag_value(F, b, t.d['a'][k]) for k in (2, 3, 4))
            R.expect('P6', b.fn, 'check_state flag arguments are constants', None not in (pres, absn, op), f'present={pres} absent={absn} op={op}', f'present={pres} absent={absn} op={op}', b.where(t.bb))
            if None in (pres, absn, op):
                continue
            table[m] = (pres, absn, op)
            s = prims.sources(b, t.d['a'][1])
            R.expect('P10', b.fn, 'check_state is evaluated for the caller\'s session mode', any(x[0] == 'arg' and b.local_name(x[1]) == 'session_mode' for x in s), 'session_mode param',
                     f'{sorted(map(str, s))[:4]}', b.where(t.bb))
            if op:
                R.expect('P6', b.fn, 'a command cannot be repeated: op is among the flags that must be absent', op & absn == op, f'op={op:#x} absent={absn:#x}', f'op={op:#x} is not within absent={absn:#x}', b.where(t.bb))
                af = b.calls(FS + '::add_flags')
                flag_arg = af[0].d['a'][1] if af else None
                if not af:
                    # the flag may be recorded by a private helper of FailSafe that is handed the flag (it calls add_flags / writes ctx.flags)
                    for t_ in b.calls():
                        cal_ = t_.d.get('r') or t_.d.get('f', '')
                        hb = F.bodies.get(cal_)
                        if hb is not None and cal_.startswith(FS + '::') and (FS + '::add_flags' in hb.calls_summary or 'flags:failsafe::ArmedCtx' in hb.fw_summary
                                                                                   or any('BitOrAssign for failsafe::NocFlags' in c_ for c_ in hb.calls_summary)):
                            cands = [a_ for a_ in t_.d['a'][1:] if _flag_value(F, b, a_) is not None]
                            if cands:
                                af, flag_arg = [t_], cands[-1]
                                break
                R.floor(f'flag recorded (add_flags) in {m}', len(af), 1)
                rec = _flag_value(F, b, flag_arg)
                R.expect('P6', b.fn, 'the flag recorded is the flag that was checked', rec == op, f'add_flags({rec:#x}) == op', f'add_flags({rec}) but op={op:#x}', b.where(af[0].bb))
                bad = prims.always_followed_by(b, [b.calls('fabric::Fabrics::add', 'fabric::Fabrics::update')[0].bb] if m in ('add_noc', 'update_noc') else [t.bb], [af[0].bb],
                                               exits=[x for x in ok_return_bbs(b)] or None) if False else []
        # the upfront gate of every fail-safe-only command (with_armed_failsafe: the Network Commissioning commands have no other check)
        # admits only the session context the fail-safe was armed by: check_armed's Ok is check_state's Ok
        ca = R.body(FS + '::check_armed')
        rd_ca = prims.result_defs(ca)
        if rd_ca and all(k == 'call' and (pl_.get('r') or pl_.get('f')) == FS + '::check_state' for bb, k, pl_ in rd_ca):
            R.ok('P2', ca.fn, 'answer Ok cut-by check_state ok (armed, same session context)', 'the result is check_state(..) itself')
        else:
            R.cut('P2', ca, 'answer Ok', ok_return_bbs(ca), 'check_state ok (armed, same session context)', lambda: R.call_guard(ca, FS + '::check_state'))
        waf = [b_ for b_ in F.bodies.values() if b_.focus and 'with_armed_failsafe_ex' in b_.fn and FS + '::check_armed' in b_.calls_summary]
        R.floor('with_armed_failsafe_ex calling check_armed', len(waf), 1)
        # the armed context is (re)bound to the fabric the NOC command installed - unconditionally: roll-back (expire), the persist deferral
        # (is_armed_for) and CommissioningComplete all act on ctx.fab_idx. A fail-safe armed over CASE of fabric A that then adds fabric B
        # must roll back B, not A.
        FI = 'fab_idx:failsafe::ArmedCtx'

        def must_write(fn, depth=2):
            hb = F.bodies.get(fn)
            if hb is None or depth < 0:
                return False
            wr = {i for i, j, st in hb.stmts() if any(isinstance(x, str) and x == '.' + FI for x in st[0][1:]) and not hb.is_cleanup(i)}
            for t_ in hb.calls():
                c_ = t_.d.get('r') or t_.d.get('f', '')
                if c_.startswith(FS + '::') and c_ != fn and must_write(c_, depth - 1):
                    wr.add(t_.bb)
            return bool(wr) and not (set(hb.ret_blocks()) & prims.reach(hb, (0,), cut_blocks=wr))
        for m, inst in (('add_noc', 'fabric::Fabrics::add'), ('update_noc', 'fabric::Fabrics::update')):
            b = R.body(FS + '::' + m)
            wr = {i for i, j, st in b.stmts() if any(isinstance(x, str) and x == '.' + FI for x in st[0][1:]) and not b.is_cleanup(i)}
            for t_ in b.calls():
                c_ = t_.d.get('r') or t_.d.get('f', '')
                if c_.startswith(FS + '::') and must_write(c_):
                    wr.add(t_.bb)
            it = b.calls(inst)
            R.floor(f'{inst.split("::")[-1]} in {m}', len(it), 1)
            succ_ = prims.track_result(F, b, it[0]).success
            r_ = set()
            for (frm, to) in succ_:
                r_ |= prims.reach(b, (to,), cut_blocks=wr)
            bad_ = sorted(set(ok_return_bbs(b)) & r_)
            R.expect('P3', b.fn, f'after the fabric was installed, every successful {m} has bound the armed context to it (ctx.fab_idx written on every path)', bool(wr) and not bad_,
                     'ctx.fab_idx = fabric.fab_idx() on every path', f'Ok at {[b.where(x) for x in bad_]} is reachable without (unconditionally) writing ctx.fab_idx: a fail-safe armed over another fabric\'s CASE session keeps '
                     'pointing at that fabric - its expiry rolls back the wrong fabric and the new one stays', b.where(it[0].bb))
        if 'add_noc' in table:
            p, a, o = table['add_noc']
            R.expect('P6', FS + '::add_noc', 'AddNOC requires the root certificate and an AddNOC CSR', p == c['ADD_ROOT_CERT_RECVD'] | c['ADD_CSR_REQ_RECVD'], hex(p), hex(p))
            R.expect('P6', FS + '::add_noc', 'AddNOC excludes an UpdateNOC CSR / UpdateNOC', a & (c['UPDATE_CSR_REQ_RECVD'] | c['UPDATE_NOC_RECVD']) == c['UPDATE_CSR_REQ_RECVD'] | c['UPDATE_NOC_RECVD'], hex(a), hex(a))
        if 'update_noc' in table:
            p, a, o = table['update_noc']
            R.expect('P6', FS + '::update_noc', 'UpdateNOC requires an UpdateNOC CSR', p == c['UPDATE_CSR_REQ_RECVD'], hex(p), hex(p))
            need = c['ADD_ROOT_CERT_RECVD'] | c['ADD_NOC_RECVD'] | c['ADD_CSR_REQ_RECVD']
            R.expect('P6', FS + '::update_noc', 'UpdateNOC excludes root / AddNOC / AddNOC CSR', a & need == need, hex(a), hex(a))
        for m in ('add_csr_req', 'update_csr_req'):
            if m in table:
                p, a, o = table[m]
                both = c['ADD_CSR_REQ_RECVD'] | c['UPDATE_CSR_REQ_RECVD']
                R.expect('P6', FS + '::' + m, 'only one CSRRequest per fail-safe context', a & both == both, hex(a), hex(a))
        R.floor('flag table rows', len(table), 6)
        # arm
        arm = R.body(FS + '::arm')
        muts = _state_mutations(arm)
        idle_edges = set()
        for i, blk in enumerate(arm.bbs):
            pass
        st_edges, _ = prims.enum_local_edges(F, arm, lambda pl: any(isinstance(x, str) and x.startswith('.state:' + FS) for x in pl[1:]), 'failsafe::State', ['Idle'])
        R.cut('P2', arm, 'mutate fail-safe state in arm', muts, 'state is Idle, or check_state ok', lambda: st_edges | R.call_guard(arm, FS + '::check_state'))
        # check_state itself
        cs = R.body(FS + '::check_state')
        oks = ok_return_bbs(cs)
        R.floor('Ok return of check_state', len(oks), 1)
        armed_edges, _ = prims.enum_local_edges(F, cs, lambda pl: any(isinstance(x, str) and x.startswith('.state:' + FS) for x in pl[1:]), 'failsafe::State', ['Armed'])
        R.cut('P2', cs, 'return Ok', oks, 'the fail-safe is armed', armed_edges)
        R.cut('P2', cs, 'return Ok', oks, 'ctx.fab_idx == session_mode.fab_idx()',
              lambda: _cmp_false(cs, 'Ne', lambda s: mentions(s, 'fab_idx') and not any(c_.endswith('SessionMode::fab_idx') for c_ in src_calls(s)),
                                 lambda s: any(c_.endswith('SessionMode::fab_idx') for c_ in src_calls(s))))
        R.cut('P2', cs, 'return Ok', oks, 'flags.contains(present)', lambda: _named_call_edges(R, cs, '::contains', True, arg_name='present'))
        R.cut('P2', cs, 'return Ok', oks, 'flags.intersection(absent).is_empty()', lambda: _absent_edges(R, cs))
        pt_edges, other = prims.enum_local_edges(F, cs, lambda pl: pl[0] in (2,) or (len(pl) > 1 and pl[0] == 2), 'transport::session::SessionMode', ['PlainText'])
        R.cut('P2', cs, 'return Ok', oks, 'session is not plain text', other)

    # ---- c --------------------------------------------------------------------
    with R.clause('c'):
        pass
        for m, inst in (('add_noc', 'fabric::Fabrics::add'), ('update_noc', 'fabric::Fabrics::update')):
            b = R.body(FS + '::' + m)
            ib = call_bbs(b, inst)
            R.cut('P2', b, inst.split('::')[-2] + '::' + inst.split('::')[-1], ib, 'validate_certs ok', lambda b=b: R.call_guard(b, FS + '::validate_certs'))
            nes = [t for t in b.calls('core::cmp::PartialEq::ne') if 'cert::CertRef::pubkey' in src_calls(prims.sources(b, t.d['a'][1]) | prims.sources(b, t.d['a'][0]))]
            R.expect('P2', b.fn, 'the NOC public key is compared with the key generated for this CSR', len(nes) >= 1, 'csr_pubkey != noc.pubkey()', 'comparison missing')
            if nes:
                R.cut('P2', b, inst.split('::')[-1] + ' the fabric', ib, 'CSR public key == NOC public key', lambda b=b, nes=nes: prims.track_result(F, b, nes[0]).failure)
                s = prims.sources(b, nes[0].d['a'][0]) | prims.sources(b, nes[0].d['a'][1])
                R.expect('P10', b.fn, 'the compared key derives from the fail-safe\'s own secret key', mentions(s, 'secret_key') or 'crypto::SecretKey::pub_key' in src_calls(s) or any('csr_pubkey' == b.local_name(l) for l in range(len(b.locals))),
                         'secret_key -> pub_key', f'{sorted(map(str, s))[:6]}')
            t = b.calls(FS + '::validate_certs')[0]
            rs = prims.sources(b, t.d['a'][4], through={'cert::CertRef::new', 'tlv::read::TLVElement::new', 'fabric::Fabric::root_ca', 'fabric::Fabrics::fabric'})
            if m == 'add_noc':
                R.expect('P10', b.fn, 'AddNOC validates against the staged trusted root', mentions(rs, 'root_ca'), 'root <= self.root_ca', f'{sorted(map(str, rs))[:6]}', b.where(t.bb))
            else:
                R.expect('P10', b.fn, 'UpdateNOC validates against the fabric\'s own root', 'fabric::Fabric::root_ca' in src_calls(rs), 'root <= fabrics.fabric(fab_idx).root_ca()', f'{sorted(map(str, rs))[:6]}', b.where(t.bb))
        an = R.body(FS + '::add_noc')
        from C19 import dup_fabric_rule
        dup_fabric_rule(R)
        from C19 import update_noc_fabric_rule
        update_noc_fabric_rule(R)

    # ---- d --------------------------------------------------------------------
    with R.clause('d'):
        pass
        GC = '<dm::clusters::gen_comm::GenCommHandler as dm::clusters::decl::general_commissioning::ClusterHandler>::handle_commissioning_complete'
        stores = sorted(F.callers_of('fabric::FabricPersist::store'))
        n = 0
        for cfn in stores:
            if F.owner_fn(cfn) == GC:
                continue
            b = F.body(cfn)
            n += 1
            vid = F.owner_fn(cfn).endswith('::handle_set_vid_verification_statement')
            # the VID verification statement belongs to the NOC being staged: has_pending_noc_for is the documented predicate there;
            # everywhere else the coarser is_armed_for(fab) must hold back the write
            gname = FS + '::has_pending_noc_for' if vid else FS + '::is_armed_for'
            R.cut('P2', b, 'FabricPersist::store', call_bbs(b, 'fabric::FabricPersist::store'), f'{gname.split("::")[-1]}(fab) == false',
                  lambda b=b, gname=gname: _fail_edges(R, b, gname))
        # the groups / groupcast / group-key clusters exist only with the `groups` feature (config d has it off)
        R.floor('guarded FabricPersist::store sites', n, {'q': 8, 'r': 8}.get(R.config, 2))

    # ---- e --------------------------------------------------------------------
    with R.clause('e'):
        pass
        cc = closure_in(R, GC, ['FailSafe::disarm', 'FabricPersist::store'])
        result_used(R, 'P8', cc, ('fabric::FabricPersist::store',))
        net = closure_in(R, GC, ['Persist::store'])
        result_used(R, 'P8', net, ('persist::Persist::store',))
        nsite = closure_arg_sites(cc, net.fn)
        R.floor('networks.access(store) site', len(nsite), 1)
        okb = ok_return_bbs(cc)
        R.cut('P2', cc, 'report success (Ok)', okb, 'fabric persisted', lambda: R.call_guard(cc, 'fabric::FabricPersist::store'))
        R.cut('P2', cc, 'report success (Ok)', okb, 'networks persisted', lambda: _site_edges(R, cc, nsite))
        # validation (armed, CASE session of that fabric) precedes every effect; it is done by check_disarm and again inside disarm
        def validated():
            e = set()
            for callee in (FS + '::check_disarm', FS + '::disarm'):
                if cc.calls(callee):
                    e |= R.call_guard(cc, callee)
            if not e:
                from facts import GuardMissing
                raise GuardMissing(f'{cc.fn}: neither check_disarm nor disarm is called')
            return e
        first_val = [t.bb for t in cc.calls(FS + '::check_disarm', FS + '::disarm')]
        R.cut('P2', cc, 'persist the fabric / the networks', call_bbs(cc, 'fabric::FabricPersist::store') + [t.bb for t in nsite],
              'the fail-safe is armed for the CASE session of that fabric (check_disarm / disarm ok)',
              lambda: R.call_guard(cc, FS + '::check_disarm') if cc.calls(FS + '::check_disarm') else R.call_guard(cc, FS + '::disarm'))
        R.cut('P2', cc, 'close the commissioning window / drop PASE sessions', call_bbs(cc, 'sc::pase::Pase::close_comm_window', 'transport::session::Sessions::remove_pase'),
              'FailSafe::disarm ok', lambda: R.call_guard(cc, FS + '::disarm'))
        s = prims.sources(cc, cc.calls('fabric::FabricPersist::store')[0].d['a'][1], through={'fabric::Fabrics::fabric', 'fabric::Fabrics::fabric_mut'})
        R.expect('P10', cc.fn, 'the fabric persisted is the one the fail-safe was armed for', bool({FS + '::disarm', FS + '::check_disarm'} & src_calls(s)), 'store(fabrics.fabric(check_disarm(..)?)) / store(disarm(..)?)', f'{sorted(map(str, s))[:5]}')
        # all-or-nothing under a key-value fault: the fail-safe is disarmed (state = Idle) only after both durable stores succeeded
        dis = call_bbs(cc, FS + '::disarm')
        stores_ok = R.call_guard(cc, 'fabric::FabricPersist::store')
        nets_ok = _site_edges(R, cc, nsite)
        r1 = set(dis) & prims.reach(cc, (0,), cut_edges=stores_ok)
        r2 = set(dis) & prims.reach(cc, (0,), cut_edges=nets_ok)
        if r1 or r2:
            R.fail('P3', cc.fn, 'durable stores succeed before the fail-safe is disarmed',
                   'FailSafe::disarm (state = Idle) is reachable without the success of FabricPersist::store / the networks store: if a key-value write fails the command answers an error, '
                   'yet the fail-safe is no longer armed, so the unpersisted fabric is neither rolled back nor durable (all-or-nothing broken under a KV fault)',
                   cc.where(dis[0]), key='P3|handle_commissioning_complete|disarm-before-durable-store')
        else:
            R.ok('P3', cc.fn, 'durable stores succeed before the fail-safe is disarmed', 'disarm is cut by the Ok edges of both stores')
        owner = bodies_of(F, GC)
        top = [b for b in owner if b.fn == GC][0]
        ends = [t.bb for t in top.calls() if t.d.get('f', '').endswith('::end')]
        maps = [t for t in top.calls() if t.d.get('f', '').endswith('CommissioningErrorEnum>::map')]
        R.floor('CommissioningErrorEnum::map in CommissioningComplete', len(maps), 1)
        R.cut('P2', top, 'finish the response', ends, 'the commit closure did not fail with a storage error', lambda: _site_edges(R, top, maps))

    # ---- f --------------------------------------------------------------------
    with R.clause('f'):
        pass
        ex = R.body(FS + '::expire')
        exc = closure_in(R, FS + '::expire', ['Fabrics::remove'])
        R.expect('P3', exc.fn, 'roll-back reloads the persisted fabric after dropping the in-memory one',
                 not prims.always_followed_by(exc, [e[1] for e in R.call_guard(exc, 'fabric::Fabrics::remove')], call_bbs(exc, 'fabric::Fabrics::add_load')), 'remove -> add_load', 'a path skips add_load')
        # the expiry has to get through: its only error exits before `state = Idle` are failures of the store.  Fabrics::remove fails for
        # a fabric that is gone already (RemoveFabric of the very fabric that holds the fail-safe) - propagating that keeps the fail-safe
        # armed for good and makes every later timeout sweep fail.  So the drop is cut by "that fabric is still there"
        R.cut('P2', exc, 'drop the in-memory fabric of the fail-safe (Fabrics::remove, error propagated)', call_bbs(exc, 'fabric::Fabrics::remove'),
              'the fabric still exists (Fabrics::get(idx) is Some)', lambda: _some_edges(F, exc, 'fabric::Fabrics::get'))
        t1, t2 = exc.calls('fabric::Fabrics::remove')[0], exc.calls('fabric::Fabrics::add_load')[0]
        R.expect('P10', exc.fn, 'the fabric reloaded has the index of the fabric dropped',
                 bool({x for x in prims.sources(exc, t1.d['a'][1]) if x[0] in ('upvar', 'field', 'call')} & {x for x in prims.sources(exc, t2.d['a'][1], through={'core::num::nonzero::NonZero::get'}) if x[0] in ('upvar', 'field', 'call')}),
                 'same index', 'different index sources')
        nl = closure_in(R, FS + '::expire', ['KvBlobStore::load'])
        keys = [prims.sources(nl, t.d['a'][1]) for t in nl.calls('persist::KvBlobStore::load')]
        R.expect('P10', nl.fn, 'networks are restored from NETWORKS_KEY or reset', any(any(x[0] == 'constp' and x[1].endswith('NETWORKS_KEY') for x in k) for k in keys)
                 and any(c_.endswith('::reset') for c_ in nl.calls_summary) and any(c_.endswith('::load') for c_ in nl.calls_summary), 'load(NETWORKS_KEY) / reset()', 'networks roll-back incomplete')
        # ... unconditionally: whatever the in-memory network store says about itself (managed / unmanaged), every Ok of the roll-back
        # closure has passed the reload from NETWORKS_KEY (a failed CommissioningComplete can leave staged networks marked managed)
        loads = call_bbs(nl, 'persist::KvBlobStore::load')
        oks_nl = ok_return_bbs(nl)
        rd_nl = [bb for bb, k, pl_ in prims.result_defs(nl) if k == 'call' and pl_.get('f', '').endswith(('::load', '::reset'))]
        miss = prims.precedes(nl, loads, oks_nl + rd_nl)
        R.expect('P3', nl.fn, 'every successful network roll-back has reloaded NETWORKS_KEY from the store', bool(loads) and not miss, 'kv.load(NETWORKS_KEY) precedes every result',
                 f'a result at {[nl.where(b) for b in miss]} is reached without consulting the store: staged network credentials survive the roll-back', nl.where(miss[0]) if miss else '')
        acc = [t for t in ex.calls() if t.d.get('f', '').endswith('KvBlobStoreAccess::access')]
        R.floor('kv.access in expire', len(acc), 1)
        after = R.call_guard(ex, acc[0].d['f'])
        for desc, bbs in (('remove_pase', call_bbs(ex, 'transport::session::Sessions::remove_pase')),
                          ('state = Idle', [i for i, j, s in ex.field_writes('state:' + FS)]),
                          ('breadcrumb = 0', [i for i, j, s in ex.field_writes('breadcrumb:' + FS)])):
            bad = prims.always_followed_by(ex, [e[1] for e in after], bbs) if bbs else ['missing']
            R.expect('P3', ex.fn, f'roll-back always performs: {desc}', not bad, 'on every path after the storage roll-back', f'{desc} skipped on a path / missing')
        bw = [s for i, j, s in ex.field_writes('breadcrumb:' + FS)]
        R.expect('P6', ex.fn, 'breadcrumb is zeroed', all(s[1].get('op') == 'use' and s[1]['a'][0].get('k', {}).get('v') == 0 for s in bw) and bool(bw), '0', 'not the constant 0')
        R.expect('P4', 'im::InteractionModel::check_timeouts', 'the periodic sweep drives the timer expiry', FS + '::check_failsafe_timeout' in prims.reachable_fns(F, ['im::InteractionModel::check_timeouts'], depth=3),
                 'check_timeouts -> check_failsafe_timeout', 'not reachable')
        ct = R.body(FS + '::check_failsafe_timeout')
        R.expect('P10', ct.fn, 'expiry compares now >= armed_at + timeout', any(c_.endswith('Instant::now') for c_ in ct.calls_summary) and (FS + '::expire') in ct.calls_summary, 'ok', 'missing')


def _some_edges(F, body, callee):
    """success edges of those calls of callee whose result is branched on (a call whose result only flows into a value is skipped)"""
    e = set()
    for t in body.calls(callee):
        e |= prims.track_result(F, body, t).success
    if not e:
        from facts import GuardMissing
        raise GuardMissing(f'{body.fn}: no call of {callee} whose result is tested')
    return e


def _cmp_false(body, op, lp, rp):
    e = set()
    for bb, te, fe in prims.cmp_guard_edges(body, op, lp, rp):
        e |= fe
    return e


def _fail_edges(R, body, callee):
    e = set()
    sites = body.calls(callee)
    if not sites:
        from facts import GuardMissing
        raise GuardMissing(f'{body.fn}: no call of {callee}')
    for t in sites:
        e |= prims.track_result(R.facts, body, t).failure
    return e


def _site_edges(R, body, sites):
    e = set()
    for t in sites:
        e |= prims.track_result(R.facts, body, t).success
    return e


def _named_call_edges(R, body, suffix, want_true, arg_name=None):
    e = set()
    for t in body.calls():
        if not t.d.get('f', '').endswith(suffix):
            continue
        if arg_name:
            s = set()
            for a in t.d['a'][1:]:
                s |= prims.sources(body, a)
            if not any(x[0] == 'arg' and body.local_name(x[1]) == arg_name for x in s):
                continue
        tr = prims.track_result(R.facts, body, t)
        e |= tr.success if want_true else tr.failure
    return e


def _absent_edges(R, body):
    """true edges of `ctx.flags.intersection(absent).is_empty()`"""
    e = set()
    inter = [t for t in body.calls() if t.d.get('f', '').endswith('::intersection')]
    ok = False
    for t in inter:
        s = set()
        for a in t.d['a']:
            s |= prims.sources(body, a)
        if any(x[0] == 'arg' and body.local_name(x[1]) == 'absent' for x in s) and mentions(s, 'flags'):
            ok = True
    if not ok:
        from facts import GuardMissing
        raise GuardMissing(f'{body.fn}: ctx.flags.intersection(absent) not found - the "must be absent" test is not an intersection with the current flags')
    for t in body.calls():
        if t.d.get('f', '').endswith('::is_empty'):
            s = prims.sources(body, t.d['a'][0], through={t2.d['f'] for t2 in inter})
            if any(c_.endswith('::intersection') for c_ in src_calls(s)):
                e |= prims.track_result(R.facts, body, t).success
    return e
