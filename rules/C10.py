"""C10 - A message reaches only its own exchange, and the receive path never wedges (structural clauses)."""
from common import (mentions, closure_in, async_body, closure_arg_sites, ok_return_bbs, call_bbs, named_local, src_calls,
                    src_fields, src_consts, bodies_of, result_used, field_bool_edges)
from facts import AnchorLost, op_place
import prims

EXPLANATION = """
Static structural rules over transport.rs, transport/{exchange,session}.rs and utils/sync/mutex.rs; the liveness clause
("subsequent traffic keeps flowing") is not decided. (a) matching: ExchangeState::is_for_rx's result depends on exch_id and on
role, and compares the header's initiator flag; Session::get_exch_for_rx selects with is_for_rx; (b) new-exchange gate: in
Session::post_recv add_exch is cut by is_initiator() == true, MessageMeta::is_new_exchange() == true and expired == false, and
the role given to the new exchange is Responder; (c) unclaimed messages are discarded on every exit: in the accept-timeout and
orphan sweeps every `true` result is preceded by packet.buf.clear(); the accept-timeout path also writes ResponderState::Dropped
and notifies exchange_dropped; the orphan sweep drops on the no-session edge, the no-exchange edge and the dropped-state edge;
(d) drop protocol: Exchange and PacketAccess have Drop impls; Exchange::drop calls Session::remove_exch; every holder of a
packet slot obtained with get_if_rx / get_if_tx in the runner arms clear_on_drop(true) before its first await;
(e) the conditional mutex cannot be left locked without a guard: in IfMutex::lock_if no await lies between the wait that sets
locked = true and the construction of IfMutexGuard; the guard is constructed only in utils::sync::mutex; its Drop clears the flag.
"""
CLAUSES = ['a: exchange matching uses id and role; recv claims only packets of its own session, and only while that session exists', 'b: new-exchange gate (initiator flag, not a standalone ACK, not an SC status report)', 'c: unclaimed messages discarded on every exit; accept deadline armed by every accepted message; the CloseSession of a dropped exchange is encoded where its session is removed', 'd: drop / guard protocol',
           'e: conditional mutex never held without a guard', 'f: no lost wake-up on the shared packet slots (Signal wakes a displaced waiter)',
           'g: only a session-bearing message is answered with SessionNotFound (no self-feeding reply loop)']
NOT_DECIDED = ['liveness: subsequent traffic keeps flowing', 'interleavings of concurrent exchanges']
MIN_OBLIGATIONS = {'q': 22, 'd': 22, 'r': 22}

ES = 'transport::exchange::ExchangeState'
SESS = 'transport::session::Session'
TR = 'transport::TransportRunner'


def check(R):
    F = R.facts
    # ---- a --------------------------------------------------------------------
    with R.clause('a'):
        pass
        ifr = R.body(ES + '::is_for_rx')
        for fld in ('exch_id:' + ES, 'role:' + ES, 'exch_id:transport::proto_hdr::ProtoHdr'):
            ok, why = prims.field_influences_result(ifr, fld)
            R.expect('P9', ifr.fn, f'exchange match depends on {fld.split(":")[0]} of {fld.split("::")[-1]}', ok, why, why)
        R.expect('P9', ifr.fn, 'exchange match tests the initiator flag of the header', 'transport::proto_hdr::ProtoHdr::is_initiator' in ifr.calls_summary, 'is_initiator()', 'is_initiator not consulted')
        eqs = [c for c in prims.compare_sites(ifr, ops=('Eq',)) if mentions(prims.sources(ifr, c[3]) | prims.sources(ifr, c[4]), 'exch_id')]
        R.expect('P9', ifr.fn, 'exchange ids are compared for equality', len(eqs) >= 1, 'Eq', 'no equality on exch_id')
        rel = [c for c in prims.compare_sites(ifr, ops=('Eq',)) if 'transport::proto_hdr::ProtoHdr::is_initiator' in src_calls(prims.sources(ifr, c[3]) | prims.sources(ifr, c[4]))]
        okrel = False
        for c in rel:
            other = c[4] if 'transport::proto_hdr::ProtoHdr::is_initiator' in src_calls(prims.sources(ifr, c[3])) else c[3]
            so = prims.sources(ifr, other)
            okrel = okrel or (mentions(so, 'role') or 0 in src_consts(so) or 1 in src_consts(so))
        R.expect('P9', ifr.fn, 'the header\'s initiator flag must EQUAL "our role is Responder" (an equality, not a disjunction)', okrel,
                 'is_initiator() == matches!(role, Responder(_))', 'no equality between the initiator flag and the role test: a message can match an exchange of the wrong role')
        rd = prims.result_defs(ifr)
        R.expect('P10', ifr.fn, 'the match result is false, or that equality', all((k == 'const' and p == 0) or k == 'expr' for bb, k, p in rd) and any(k == 'expr' and p.get('op') == 'bin' and p.get('b') == 'Eq' for bb, k, p in rd),
                 'exch_id == .. && (flag == role)', f'{[(k, p.get("b") if isinstance(p, dict) else p) for bb, k, p in rd]}')
        gx = bodies_of(F, SESS + '::get_exch_for_rx')
        R.expect('P4', SESS + '::get_exch_for_rx', 'exchange lookup uses ExchangeState::is_for_rx', any(ES + '::is_for_rx' in b.calls_summary for b in gx), 'ok', 'is_for_rx not used')
        # a waiting exchange claims the pending packet only if the packet belongs to ITS session - the full Session::is_for_rx match
        # (peer address, node ids, session id, encryption kind; all unsecured sessions share session id 0) - and then to the exchange
        rc = closure_in(R, 'transport::exchange::ExchangeId::recv', ['ExchangeState::is_for_rx'])
        R.cut('P2', rc, 'claim the pending packet for this exchange (ExchangeState::is_for_rx)', call_bbs(rc, ES + '::is_for_rx'),
              'the packet was received on this exchange\'s session (Session::is_for_rx)', lambda: R.call_guard(rc, SESS + '::is_for_rx'))
        R.cut('P2', rc, 'answer `the packet is for us` (non-false result)', [bb for bb, k, pl_ in prims.result_defs(rc) if not (k == 'agg' and pl_.get('var') == 'Ok' and pl_['a'] and pl_['a'][0].get('k', {}).get('v') == 0) and not (k == 'call' and 'from_residual' in pl_.get('f', ''))],
              'Session::is_for_rx holds', lambda: R.call_guard(rc, SESS + '::is_for_rx'))

        # the RX predicate also answers "mine" when the exchange's own session is gone (so that the waiter wakes up and fails): the waiter
        # must then leave the packet alone - claiming it (clear_on_drop(true)) is cut, after the wake-up, by "our session still exists".
        # Otherwise the message of ANOTHER exchange is erased; it is already in its session's receive window, so its retransmissions are
        # acknowledged as duplicates and it is never delivered
        E3 = 'embassy_futures::select::Either3'
        rco = async_body(R, 'transport::exchange::ExchangeId::recv')
        first, _oth = prims.enum_local_edges(F, rco, lambda pl: rco.local_ty(pl[0]).startswith(E3), E3, ['First'])
        R.floor('Either3::First arm of the select in ExchangeId::recv', len(first), 1)
        claims = [t.bb for t in rco.calls() if any(n.endswith('::clear_on_drop') for n in t.callee_names())]
        R.floor('packet.clear_on_drop(..) in ExchangeId::recv', len(claims), 1)
        for (frm, to) in sorted(first):
            R.cut_from('P2', rco, to, 'claim the packet in the RX slot (clear_on_drop(true))', claims, 'the session of this exchange still exists (with_state ok)',
                       lambda: R.call_guard(rco, 'transport::exchange::ExchangeId::with_state'))

    # ---- b --------------------------------------------------------------------
    with R.clause('b'):
        pass
        pr = R.body(SESS + '::post_recv')
        adds = call_bbs(pr, SESS + '::add_exch')
        R.cut('P2', pr, 'open a new exchange', adds, 'the message has the initiator flag', lambda: R.call_guard(pr, 'transport::proto_hdr::ProtoHdr::is_initiator'))
        R.cut('P2', pr, 'open a new exchange', adds, 'the message kind may start an exchange', lambda: R.call_guard(pr, 'transport::exchange::MessageMeta::is_new_exchange'))
        te, fe = field_bool_edges(pr, 'expired:' + SESS)
        R.cut('P2', pr, 'open a new exchange', adds, 'the session is not expired', fe)
        R.cut('P2', pr, 'open a new exchange', adds, 'no existing exchange matches', lambda: _fail_edges(R, pr, SESS + '::get_exch_for_rx'))
        t = pr.calls(SESS + '::add_exch')[0]
        s = prims.sources(pr, t.d['a'][2])
        R.expect('P10', pr.fn, 'an exchange opened by a received message has the Responder role', ('agg', 'transport::exchange::Role', 'Responder') in s and ('agg', 'transport::exchange::Role', 'Initiator') not in s,
                 'Role::Responder', f'{sorted(map(str, s))[:5]}', pr.where(t.bb))
        s = prims.sources(pr, t.d['a'][1])
        R.expect('P10', pr.fn, 'the new exchange takes the id of the received message', mentions(s, 'exch_id') and mentions(s, 'proto'), 'rx_header.proto.exch_id', f'{sorted(map(str, s))[:5]}', pr.where(t.bb))
        # ... and which message kinds may open one is a conjunction of both exclusions: neither a standalone ACK nor a Secure Channel status
        # report creates a responder exchange (both are answers; an exchange opened for one has no handler and sits in the RX slot)
        ne = R.body('transport::exchange::MessageMeta::is_new_exchange')
        nf = prims.nonfalse_result_bbs(ne)
        R.floor('non-false results of is_new_exchange', len(nf), 1)
        for callee, what in (('transport::exchange::MessageMeta::is_standalone_ack', 'a standalone ACK'), ('transport::exchange::MessageMeta::is_sc_status', 'a Secure Channel status report')):
            cs = ne.calls(callee)
            dep = False
            for t in cs:
                tainted, sw, ret, _ = prims.forward_taint(ne, {t.d['d'][0]})
                dep = dep or ret or bool(sw)
            R.expect('P9', ne.fn, f'whether a message may open an exchange depends on its being {what}', dep, f'{callee.split("::")[-1]}() flows into the answer (value or branch)',
                     f'{callee.split("::")[-1]}() is ' + ('not called' if not cs else 'called but its result does not reach the answer') + f': {what} is allowed to create a responder exchange')
        noex = [i for i, j, st in pr.stmts() if st[1].get('op') == 'agg' and st[1].get('adt') == 'error::ErrorCode' and st[1].get('var') == 'NoExchange']
        R.expect('P2', pr.fn, 'answers to unknown exchanges are refused (NoExchange)', bool(noex), 'NoExchange constructed', 'NoExchange not constructed')

    # ---- c --------------------------------------------------------------------
    with R.clause('c'):
        pass
        for fn, edges_desc in ((TR + '::handle_accept_timeout_rx_packet', 'accept timeout'), (TR + '::handle_orphaned_rx_packet', 'orphan sweep')):
            clo = closure_in(R, fn, ['Sessions::get_exch_for_rx'])
            trues = [bb for bb, k, p in prims.result_defs(clo) if k == 'const' and p == 1]
            R.floor(f'`true` results in {fn}', len(trues), 1 if 'accept' in fn else 2)
            clears = [t.bb for t in clo.calls() if t.d.get('f', '').endswith('::clear')]
            R.floor(f'buf.clear() in {fn}', len(clears), 1)
            miss = prims.precedes(clo, clears, trues)
            R.expect('P3', clo.fn, f'{edges_desc}: every `true` result is preceded by packet.buf.clear()', not miss, 'clear precedes', f'`true` at {[clo.where(b) for b in miss]} without clearing the buffer')
            others = [(bb, k) for bb, k, p in prims.result_defs(clo) if k != 'const']
            R.expect('P10', clo.fn, f'{edges_desc}: results are explicit constants', not others, 'ok', f'{others}')
        at = closure_in(R, TR + '::handle_accept_timeout_rx_packet', ['Sessions::get_exch_for_rx'])
        trues = [bb for bb, k, p in prims.result_defs(at) if k == 'const' and p == 1]
        dropped = [i for i, j, s in at.field_writes('role:' + ES)]
        R.expect('P3', at.fn, 'accept timeout marks the exchange Dropped and notifies the closer', bool(dropped) and not prims.precedes(at, dropped, trues)
                 and any(c.endswith('Notification::notify') or c.endswith('::notify') for c in at.calls_summary), 'role = Dropped; exchange_dropped.notify()', 'missing Dropped write / notify')
        R.cut('P2', at, 'discard on accept timeout', trues, 'the exchange waited longer than the accept deadline', lambda: R.call_guard(at, 'transport::mrp::ReliableMessage::has_rx_timed_out'))
        # the deadline needs its starting point: every message that ReliableMessage::post_recv lets through stamps received_at -
        # also one that asks for no acknowledgement (over TCP / BTP that is every message), or has_rx_timed_out never fires for it and
        # an un-accepted exchange keeps the single RX slot for good
        mp = R.body('transport::mrp::ReliableMessage::post_recv')
        stamps = [i for i, j, st in mp.field_writes('received_at:transport::mrp::ReliableMessage')]
        R.floor('writes of ReliableMessage.received_at in post_recv', len(stamps), 1)
        oks_mp = ok_return_bbs(mp)
        miss = prims.precedes(mp, stamps, oks_mp)
        R.expect('P3', mp.fn, 'every message accepted by ReliableMessage::post_recv stamps received_at (the start of the accept deadline)', bool(oks_mp) and not miss,
                 'received_at written on every path to Ok', f'Ok at {[mp.where(x) for x in miss][:2]} is reachable without stamping received_at: the accept deadline of that message never fires')
        ht = R.body('transport::mrp::ReliableMessage::has_rx_timed_out')
        R.expect('P9', ht.fn, 'the accept deadline is computed from received_at', bool(prims.field_read_locals(ht, 'received_at:transport::mrp::ReliableMessage')) or
                 any(isinstance(x, str) and x == '.received_at:transport::mrp::ReliableMessage' for i, j, st in ht.stmts() for x in (st[1].get('pl') or [])[1:]) or
                 any(isinstance(x, str) and x == '.received_at:transport::mrp::ReliableMessage' for t in ht.calls() for a in t.d['a'] if op_place(a) for x in op_place(a)[1:]),
                 'reads self.received_at', 'has_rx_timed_out no longer reads received_at')
        orp = closure_in(R, TR + '::handle_orphaned_rx_packet', ['Sessions::get_exch_for_rx'])
        LK = 'transport::session::Sessions::get_exch_for_rx'
        fe_ = _fail_edges(R, orp, LK)
        trues = [bb for bb, k, p in prims.result_defs(orp) if k == 'const' and p == 1]
        bad = [orp.where(f) for (f, t_) in fe_ if set(orp.ret_blocks()) & prims.reach(orp, (t_,), cut_blocks=set(trues))]
        R.expect('P3', orp.fn, 'orphan sweep: no session / no exchange owns the packet -> the packet is dropped', bool(fe_) and not bad, 'None edge -> clear + true', f'None edge returns without dropping: {bad}')
        # the combined lookup (several ephemeral group sessions of one sender can match one plain header): it selects with
        # Session::is_for_rx AND ownership of the exchange, and a session is only returned together with an exchange it owns
        lk = R.body(LK)
        lkb = [lk] + list(F.nested(LK))
        R.expect('P4', LK, 'the packet-to-exchange lookup tests the session (is_for_rx) and the exchange (Session::get_exch_for_rx)',
                 any(SESS + '::is_for_rx' in b.calls_summary for b in lkb) and any(SESS + '::get_exch_for_rx' in b.calls_summary for b in lkb), 'is_for_rx && get_exch_for_rx', 'one of the two tests is gone')
        for b in lkb:
            gx_ = b.calls(SESS + '::get_exch_for_rx')
            isf = b.calls(SESS + '::is_for_rx')
            if gx_ and isf:
                R.cut('P2', b, 'look the exchange up in a session', [t.bb for t in gx_], 'the session matches the packet (is_for_rx)', lambda b=b: R.call_guard(b, SESS + '::is_for_rx'))
        R.callers_confined('P1', LK, {'transport::Transport::accept_if', TR + '::handle_accept_timeout_rx_packet', TR + '::handle_orphaned_rx_packet'}, min_callers=3)
        R.cut('P2', orp, 'keep the packet (return false)', [bb for bb, k, p in prims.result_defs(orp) if k == 'const' and p == 0], 'session and exchange exist and the exchange is not dropped',
              lambda: _fail_edges(R, orp, 'transport::exchange::Role::is_dropped_state'))

    # ---- c2 -------------------------------------------------------------------
    with R.clause('c2'):
        dropped_partition_rule(R)
    # ---- d --------------------------------------------------------------------
    with R.clause('d'):
        pass
        for adt in ('transport::exchange::Exchange', 'transport::PacketAccess', 'utils::sync::mutex::IfMutexGuard', 'transport::session::ReservedSession'):
            R.expect('P5', adt, f'{adt.split("::")[-1]} has a Drop impl', F.has_impl('core::ops::drop::Drop', adt), 'impl Drop', 'no Drop impl')
            R.expect('P5', adt, f'{adt.split("::")[-1]} is not Clone/Copy', not F.has_impl('core::clone::Clone', adt) and not F.has_impl('core::marker::Copy', adt), 'ok', 'Clone/Copy implemented')
        ed = bodies_of(F, '<transport::exchange::Exchange as core::ops::drop::Drop>::drop')
        R.expect('P3', 'Exchange::drop', 'dropping an Exchange removes it from its session', any(SESS + '::remove_exch' in b.calls_summary for b in ed), 'remove_exch', 'remove_exch not called')
        pd = bodies_of(F, '<transport::PacketAccess<N> as core::ops::drop::Drop>::drop')
        R.floor('PacketAccess::drop bodies', len(pd), 1)
        R.expect('P3', 'PacketAccess::drop', 'dropping an armed PacketAccess clears the buffer', any(any(c.endswith('::clear') for c in b.calls_summary) for b in pd), 'buf.clear()', 'no clear in Drop')
        holders = 0
        for b in F.bodies.values():
            if not b.focus or b.kind != 'coroutine' or not b.fn.startswith(('transport::TransportRunner', 'transport::exchange::', 'transport::Transport')):
                continue
            pals = [l for l in range(len(b.locals)) if b.local_ty(l).startswith('transport::PacketAccess<')]
            if not pals:
                continue
            arm = [t.bb for t in b.calls('transport::PacketAccess::clear_on_drop') if t.d['a'][1].get('k', {}).get('v') == 1]
            for l in pals:
                acq = []
                for (bb, idx, kind, payload) in b.defs.get(l, ()):
                    if b.is_cleanup(bb) or kind != 'assign':
                        continue
                    rv = payload[1]
                    src = op_place(rv['a'][0]) if rv.get('op') == 'use' else None
                    if src and len(src) == 1 and src[0] in pals:
                        continue   # a move between two slot locals is not a new acquisition
                    acq.append(bb)
                if not acq:
                    continue
                holders += 1
                drops = [i for i, blk in enumerate(b.bbs) if blk['t']['t'] == 'drop' and blk['t']['pl'][0] in pals and not blk.get('c')]
                moved = [i for i, j, st in b.stmts() if st[1].get('op') in ('use', 'agg') and any(op_place(a) and op_place(a)[0] == l and 'm' in a for a in st[1].get('a', ()))]
                ys = prims.yields_between(b, acq, set(arm) | set(drops) | set(moved))
                R.expect('P3', b.fn, f'packet slot `{b.local_name(l) or l}` acquired at {b.where(acq[0])}: armed with clear_on_drop(true), released or handed on before the next await', not ys,
                         'no await while the slot is held unarmed', f'an await at {[b.where(y) for y in ys][:3]} can cancel the task while the slot is held unarmed: the packet would stay in the slot forever',
                         b.where(acq[0]))
        R.floor('packet slot holders', holders, 5)

    # ---- e --------------------------------------------------------------------
    with R.clause('e'):
        pass
        li = async_body(R, 'utils::sync::mutex::IfMutex::lock_if')
        guards = [i for i, j, s in li.aggregates('utils::sync::mutex::IfMutexGuard')]
        R.floor('IfMutexGuard construction in lock_if', len(guards), 1)
        waits = [t for t in li.calls() if t.d.get('f', '').endswith('Signal::wait')]
        R.floor('Signal::wait in lock_if', len(waits), 1)
        tr = prims.track_result(F, li, waits[0])
        ready = [i for i, j, s in li.stmts() if len(s[0]) == 1 and s[0][0] in {l for l, tag in tr.locals.items() if tag[0] == 'val'} and s[1].get('op') == 'use' and op_place(s[1]['a'][0]) and '@Ready' in op_place(s[1]['a'][0])]
        R.floor('completion of wait in lock_if', len(ready), 1)
        ys = prims.yields_between(li, ready, guards)
        R.expect('P3', li.fn, 'no await between acquiring the lock flag and constructing the guard', not ys, 'guard built immediately after the wait completes', f'await at {[li.where(y) for y in ys]}')
        R.constructors_confined('P1', 'utils::sync::mutex::IfMutexGuard', {'utils::sync::mutex::IfMutex::lock_if', 'utils::sync::mutex::IfMutex::try_lock', 'utils::sync::mutex::IfMutex::try_lock_if', 'utils::sync::mutex::IfMutex::with'})
        gd = bodies_of(F, '<utils::sync::mutex::IfMutexGuard<T, M> as core::ops::drop::Drop>::drop')
        R.floor('IfMutexGuard::drop bodies', len(gd), 1)
        R.expect('P3', 'IfMutexGuard::drop', 'dropping the guard releases the flag through the signal', any(any(c.endswith('Signal::modify') or c.endswith('Signal::signal') for c in b.calls_summary) for b in gd), 'state.modify(..)', 'no release in Drop')
        wc = closure_in(R, 'utils::sync::mutex::IfMutex::lock_if', ['UnsafeCell::get'])
        sets = [i for i, j, s in wc.stmts() if s[1].get('op') == 'use' and s[1]['a'][0].get('k', {}).get('v') == 1 and any(x == '*' for x in s[0][1:])]
        somes = [bb for bb, k, p in prims.result_defs(wc) if k == 'agg' and p.get('var') == 'Some']
        R.expect('P2', wc.fn, 'the lock is reported acquired only after setting locked = true', bool(sets) and bool(somes) and not prims.precedes(wc, sets, somes), '*locked = true precedes Some(())', 'Some(()) reachable without setting the flag')

    # ---- f --------------------------------------------------------------------
    with R.clause('f'):
        # no lost wake-up on the shared packet slots: Signal (under IfMutex / Notification) keeps ONE waiter. When a second task starts
        # waiting, the first must be woken so that it re-registers - either through a waitqueue primitive (*Registration::register does
        # exactly that) or by waking the displaced waker explicitly. Silently overwriting the stored waker strands the first task.
        is_pending = lambda b_: [i for i, j_, st in b_.stmts() if st[1].get('op') == 'agg' and st[1].get('adt') == 'core::task::poll::Poll' and st[1].get('var') == 'Pending' and not b_.is_cleanup(i)]
        cands = [b_ for b_ in [R.body('utils::sync::signal::Signal::poll_wait')] + list(F.nested('utils::sync::signal::Signal::poll_wait')) if is_pending(b_)]
        R.floor('body answering Poll::Pending in Signal::poll_wait', len(cands), 1)
        pw = cands[0]
        pend = is_pending(pw)
        reg = [t.bb for t in pw.calls() if t.d.get('f', '').startswith('embassy_sync::waitqueue::') and t.d.get('f', '').endswith('::register')]
        wakes = [t.bb for t in pw.calls() if t.d.get('f', '').endswith(('Waker::wake', 'Waker::wake_by_ref'))]
        miss = prims.precedes(pw, reg + wakes, pend) if (reg or wakes) else pend
        R.expect('P3', pw.fn, 'before answering Pending the waiter is registered through a primitive that wakes a displaced waiter', bool(reg or wakes) and not miss,
                 f'{"*Registration::register" if reg else "explicit wake of the displaced waker"} precedes Poll::Pending',
                 'the waker is stored without waking the waiter it replaces: with two tasks waiting on the RX / TX slot only the last one is ever woken, the other never sees its packet')
        md = [b for b in F.bodies.values() if b.focus and b.fn.startswith('utils::sync::signal::Signal::') and '::tests::' not in b.fn
              and any(c.endswith(('Registration::wake', 'Waker::wake', 'Waker::wake_by_ref')) for c in b.calls_summary)]
        R.expect('P3', 'utils::sync::signal::Signal::modify', 'a modification that asks for it wakes the registered waiter', len(md) >= 1, f'{[b.fn.split("::")[-2] for b in md]}', 'no wake call left in Signal')

    # ---- g --------------------------------------------------------------------
    with R.clause('g'):
        # the receive path does not feed itself: the only unsolicited answer to a message without a session - the unsecured SessionNotFound
        # status report - is sent only for a session-bearing (encrypted) message. Being unsecured and opening no session, the report is
        # exactly the kind of message that gets NoSession at its receiver: answering it in kind bounces forever between two nodes.
        hr = 'transport::TransportRunner::handle_rx_packet'
        co = async_body(R, hr)
        snf = [b for b in F.nested(hr) if b.kind == 'closure' and (any(st[1].get('op') == 'agg' and st[1].get('adt') == 'sc::SCStatusCodes' and st[1].get('var') == 'SessionNotFound' for i, j_, st in b.stmts())
                                                                   or any(('agg', 'sc::SCStatusCodes', 'SessionNotFound') in prims.sources(b, a) for t in b.calls('sc::sc_write') for a in t.d['a']))]
        R.floor('closure writing SCStatusCodes::SessionNotFound', len(snf), 1)
        wsites = closure_arg_sites(co, snf[0].fn)
        R.floor('write_packet(SessionNotFound) site', len(wsites), 1)

        def encrypted():
            e = set()
            for t in co.calls('transport::plain_hdr::PlainHdr::is_encrypted'):
                e |= prims.track_result(F, co, t).success
            if not e:
                from facts import GuardMissing
                raise GuardMissing(f'{co.fn}: no PlainHdr::is_encrypted() test')
            return e
        R.cut('P2', co, 'answer a message that has no session with SessionNotFound', [t.bb for t in wsites], 'the message is session-bearing (plain header encrypted)', encrypted)


def _fail_edges(R, body, callee):
    e = set()
    sites = body.calls(callee)
    if not sites:
        from facts import GuardMissing
        raise GuardMissing(f'{body.fn}: no call of {callee}')
    for t in sites:
        e |= prims.track_result(R.facts, body, t).failure
    return e



def dropped_partition_rule(R):
    """the dropped-exchange sweep reaches every dropped exchange: its two lookups split them by `retransmission pending` and nothing else"""
    F = R.facts
    hd = closure_in(R, TR + '::handle_dropped_exchange', ['Sessions::get_exch'])
    preds = [b for b in F.nested(TR + '::handle_dropped_exchange') if b.kind == 'closure' and 'transport::exchange::Role::is_dropped_state' in b.calls_summary]
    R.floor('dropped-exchange predicates', len(preds), 2)
    # "... the exchange is closed (with an acknowledgement or a session close as required)": write_evict_session_packet REMOVES the
    # session before it writes the CloseSession - the packet has to be encoded there and then (encode = true); left for process_tx it can no
    # longer be encoded (no such session) and is dropped: the session is closed locally and the peer is never told
    WE = TR + '::write_evict_session_packet'
    we = R.body(WE)
    rm_first = bool(we.calls('transport::session::Sessions::remove'))
    for b_ in [x for x in F.bodies.values() if x.focus and '::tests::' not in x.fn and WE in x.calls_summary]:
        for t in b_.calls(WE):
            a = t.d['a'][4]
            const = a.get('k', {}).get('v') if 'k' in a else None
            fwd = any(x[0] == 'arg' for x in prims.sources(b_, a)) if const is None else False
            R.expect('P6', b_.fn, 'the CloseSession of a session removed on the spot is encoded on the spot (encode = true)', (const == 1 or fwd) and rm_first,
                     'encode = true' if const == 1 else 'encode forwarded from the caller\'s parameter',
                     f'write_evict_session_packet(.., encode = {bool(const)}) at {b_.where(t.bb)}: the session is gone when process_tx looks it up to encode the packet - the CloseSession is never sent', b_.where(t.bb))
    pol = []
    for pb in preds:
        extra = sorted(c for c in pb.calls_summary if c.startswith('transport::') and c not in ('transport::exchange::Role::is_dropped_state', 'transport::mrp::ReliableMessage::is_retrans_pending'))
        R.expect('P5', pb.fn, 'the dropped-exchange sweep partitions dropped exchanges by `retransmission pending` only', not extra and 'transport::mrp::ReliableMessage::is_retrans_pending' in pb.calls_summary,
                 'is_dropped_state() && [!]is_retrans_pending()', f'predicate also consults {extra}: a dropped exchange matching neither predicate is never closed and pins its session')
        nf = prims.nonfalse_result_bbs(pb)
        t = pb.calls('transport::mrp::ReliableMessage::is_retrans_pending')
        if t:
            tr = prims.track_result(F, pb, t[0])
            rd_ = prims.result_defs(pb)
            direct = any(k == 'call' and p.get('f', '').endswith('is_retrans_pending') for bb, k, p in rd_)
            neg = any(k == 'expr' and p.get('op') == 'un' and p.get('u') == 'Not' for bb, k, p in rd_)
            pol.append('+' if direct else ('-' if neg else '?'))
    R.expect('P5', TR + '::handle_dropped_exchange', 'one predicate takes retransmission-pending exchanges, the other exactly the rest', sorted(pol) == ['+', '-'], str(pol), f'polarities {pol}: the two lookups do not cover every dropped exchange')

