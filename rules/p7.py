"""P7 - peer-driven panic surface: every panic-capable MIR site in the listed
receive-path bodies must be discharged by a closed list of structural
arguments or by an audited entry (rules/p7_audited.json, keyed without line
numbers).  A new undischargeable site is a violation naming the site."""
import json
import os
import re

from facts import op_place, op_local
import prims

HERE = os.path.dirname(os.path.abspath(__file__))

IGNORED_ASSERTS = ('Resumed', 'Misaligned', 'NullPointer', 'InvalidEnum')
PANIC_CALLS = ('core::panicking::',)
UNWRAPS = ('core::option::Option::unwrap', 'core::option::Option::expect', 'core::result::Result::unwrap', 'core::result::Result::expect',
           'core::result::Result::unwrap_err', 'core::result::Result::expect_err')
INDEXING = ('core::ops::index::Index::index', 'core::ops::index::IndexMut::index_mut', 'core::slice::<impl [T]>::copy_from_slice',
            'core::slice::<impl [T]>::split_at', 'core::slice::<impl [T]>::split_at_mut', 'core::slice::<impl [T]>::clone_from_slice',
            'core::slice::<impl [T]>::swap', 'core::str::<impl str>::split_at')
INT_BITS = {'u8': 8, 'u16': 16, 'u32': 32, 'u64': 64, 'usize': 64, 'i8': 7, 'i16': 15, 'i32': 31, 'i64': 63, 'isize': 63, 'u128': 128, 'i128': 127, 'bool': 1, 'char': 21}


def load_audited():
    p = os.path.join(HERE, 'p7_audited.json')
    if not os.path.exists(p):
        return {}
    return json.load(open(p))


# --------------------------------------------------------------------------
# canonical expression keys
# --------------------------------------------------------------------------
def _place_str(body, pl):
    out = []
    base = pl[0]
    nm = body.local_name(base)
    out.append(nm if nm else (f'arg{base}' if 1 <= base <= body.argc else f'_{base}'))
    for x in pl[1:]:
        if x == '*':
            continue
        if isinstance(x, str) and x.startswith('.'):
            out.append('.' + x[1:].split(':')[0])
        elif isinstance(x, str) and x.startswith('@'):
            out.append(x)
        elif isinstance(x, str) and x.startswith('[_'):
            out.append('[' + expr_key(body, {'c': [int(x[2:-1])]}, 3) + ']')
        else:
            out.append(str(x))
    return ''.join(out)


def expr_key(body, operand, depth=6):
    """Canonical string for the value of an operand: follows single-definition
    temporaries through copies, casts, refs and pure calls."""
    k = operand.get('k')
    if k is not None:
        if 'v' in k:
            return str(k['v'])
        if 'p' in k:
            return k['p'].split('::')[-1]
        return 'const'
    pl = op_place(operand)
    if pl is None:
        return '?'
    base = pl[0]
    if depth <= 0 or body.local_name(base) or base <= body.argc:
        return _place_str(body, pl)
    ds = [d for d in body.defs.get(base, ()) if not body.is_cleanup(d[0])]
    if len(ds) != 1:
        return _place_str(body, pl)
    bb, idx, kind, payload = ds[0]
    rest = ''.join(('.' + x[1:].split(':')[0]) if isinstance(x, str) and x.startswith('.') else '' for x in pl[1:])
    if kind == 'assign':
        rv = payload[1]
        o = rv.get('op')
        if o in ('use',):
            return expr_key(body, rv['a'][0], depth - 1) + rest
        if o == 'cast':
            return expr_key(body, rv['a'][0], depth - 1) + rest
        if o in ('ref', 'rawptr'):
            return _resolve_place_key(body, rv['pl'], depth - 1) + rest
        if o == 'bin':
            return f"{rv['b'].replace('WithOverflow', '')}({expr_key(body, rv['a'][0], depth - 1)},{expr_key(body, rv['a'][1], depth - 1)})" + rest
        if o == 'len':
            return 'len(' + _resolve_place_key(body, rv['pl'], depth - 1) + ')'
        if o == 'un':
            return f"{rv['u']}({expr_key(body, rv['a'][0], depth - 1)})"
        if o == 'agg' and rv.get('adt', '').startswith('core::ops::range::Range'):
            vals = dict(zip(rv.get('fields', ()), rv['a']))
            lo = expr_key(body, vals['start'], depth - 1) if 'start' in vals else ''
            hi = expr_key(body, vals['end'], depth - 1) if 'end' in vals else ''
            return f"{lo}..{'=' if 'Inclusive' in rv['adt'] else ''}{hi}" + rest
        return _place_str(body, pl)
    if kind == 'call':
        f = payload.get('f', '?').split('::')[-1]
        if payload.get('f', '').endswith(('::len', '::deref', '::deref_mut', '::as_slice', '::as_ref', '::clone', '::into', '::from', '::get', '::bits', '::size', '::as_mut_slice',
                                          '::variable_size_len', '::min', '::max', '::wrapping_add', '::wrapping_sub', '::capacity')):
            args = ','.join(expr_key(body, a, depth - 1) for a in payload['a'])
            return f"{f}({args})" + rest
        return f"{f}@bb{bb}" + rest
    return _place_str(body, pl)


def _resolve_place_key(body, pl, depth):
    base = pl[0]
    if body.local_name(base) or base <= body.argc or depth <= 0:
        return _place_str(body, pl)
    ds = [d for d in body.defs.get(base, ()) if not body.is_cleanup(d[0])]
    if len(ds) == 1 and ds[0][2] == 'assign' and ds[0][3][1].get('op') in ('ref', 'rawptr', 'use'):
        rv = ds[0][3][1]
        src = rv['pl'] if rv.get('op') in ('ref', 'rawptr') else op_place(rv['a'][0])
        if src:
            return _resolve_place_key(body, list(src) + list(pl[1:]), depth - 1)
    if len(ds) == 1 and ds[0][2] == 'call':
        return expr_key(body, {'c': pl}, depth)
    return _place_str(body, pl)


# --------------------------------------------------------------------------
# value-width reasoning
# --------------------------------------------------------------------------
def max_bits(body, operand, depth=6):
    """Upper bound (in bits) of the unsigned magnitude of an operand, or None."""
    k = operand.get('k')
    if k is not None:
        if 'v' in k and k['v'] is not None:
            return max(1, int(k['v']).bit_length()) if k['v'] >= 0 else None
        return None
    pl = op_place(operand)
    if pl is None:
        return None
    base = pl[0]
    ty = body.local_ty(base)
    # type of the projected place: only use the local's type when unprojected
    if len(pl) == 1 and ty in INT_BITS:
        tb = INT_BITS[ty]
    else:
        tb = None
    if depth <= 0:
        return tb
    ds = [d for d in body.defs.get(base, ()) if not body.is_cleanup(d[0])]
    if len(pl) == 1 and len(ds) == 1:
        bb, idx, kind, payload = ds[0]
        if kind == 'assign':
            rv = payload[1]
            o = rv.get('op')
            if o == 'cast':
                inner = max_bits(body, rv['a'][0], depth - 1)
                return min(inner, tb) if inner and tb else (inner or tb)
            if o == 'use':
                inner = max_bits(body, rv['a'][0], depth - 1)
                return min(inner, tb) if inner and tb else (inner or tb)
            if o == 'len':
                return 63
            if o == 'bin' and rv['b'] in ('BitAnd',):
                a, b = max_bits(body, rv['a'][0], depth - 1), max_bits(body, rv['a'][1], depth - 1)
                c = [x for x in (a, b) if x]
                return min(c) if c else tb
            if o == 'bin' and rv['b'] in ('Shr',):
                inner = max_bits(body, rv['a'][0], depth - 1) or tb
                amt = rv['a'][1].get('k', {}).get('v') if 'k' in rv['a'][1] else None
                if inner and isinstance(amt, int) and 0 <= amt < inner:
                    return inner - amt
                return inner
            if o == 'bin' and rv['b'] in ('Rem',):
                return max_bits(body, rv['a'][1], depth - 1) or tb
        if kind == 'call':
            f = payload.get('f', '')
            if f.endswith('::len') or f.endswith('::count') or f.endswith('::capacity') or f.endswith('::free'):
                return 63
            if f.endswith('::min'):
                c = [x for x in (max_bits(body, a, depth - 1) for a in payload['a']) if x]
                return min(c) if c else tb
            if f.endswith(('::size', '::variable_size_len', '::count_ones', '::leading_zeros', '::trailing_zeros')):
                return 8
            # lossless widening: `<u32 as Into<u64>>::into(x)` / `<u64 as From<u32>>::from(x)` keeps the source width
            m = re.match(r'<(\w+) as core::convert::Into<\w+>>::into$', payload.get('fa', '')) or re.match(r'<\w+ as core::convert::From<(\w+)>>::from$', payload.get('fa', ''))
            if m and m.group(1) in INT_BITS:
                inner = max_bits(body, payload['a'][0], depth - 1)
                return min(inner, INT_BITS[m.group(1)]) if inner else INT_BITS[m.group(1)]
            # `x?` on a Result<uN, _>: the payload has the declared width of the Ok type
            if f.endswith('::branch'):
                return None
    if len(pl) == 2 and isinstance(pl[1], str) and pl[1].startswith('.0:') and len(ds) == 1 and ds[0][2] == 'assign':
        rv = ds[0][3][1]
        if rv.get('op') == 'bin' and rv['b'] in ('AddWithOverflow', 'MulWithOverflow', 'SubWithOverflow'):
            a, b = max_bits(body, rv['a'][0], depth - 1), max_bits(body, rv['a'][1], depth - 1)
            if a and b:
                return (max(a, b) + 1) if rv['b'] == 'AddWithOverflow' else ((a + b) if rv['b'] == 'MulWithOverflow' else a)
    if len(pl) > 1:
        # a struct field: its declared integer type is not known here
        return None
    return tb


def _ty_bits(body, operand):
    pl = op_place(operand)
    if pl is not None and len(pl) == 1:
        return INT_BITS.get(body.local_ty(pl[0]))
    if pl is not None and len(pl) == 2 and isinstance(pl[1], str) and pl[1].startswith('.0:'):
        ty = body.local_ty(pl[0])
        if ty.startswith('(') and ',' in ty:
            return INT_BITS.get(ty[1:].split(',')[0].strip())
    k = operand.get('k')
    if k and k.get('ty') in INT_BITS:
        return INT_BITS[k['ty']]
    return None


# --------------------------------------------------------------------------
# sites
# --------------------------------------------------------------------------
class Site:
    def __init__(self, body, bb, kind, detail, ops=(), xp=False):
        self.body, self.bb, self.kind, self.detail, self.ops, self.xp = body, bb, kind, detail, ops, xp
        self.why = None

    def key(self):
        # stable across unrelated edits of the same function: no MIR local numbers, no basic-block indices
        d = re.sub(r'@bb\d+', '()', self.detail)
        d = re.sub(r'(?<![\w.])_\d+\b', '_', d)
        return f"{self.body.fn}|{self.kind}|{d}"

    def where(self):
        return self.body.where(self.bb)


def sites_of(body):
    out = []
    for i, blk in enumerate(body.bbs):
        if blk.get('c'):
            continue
        t = blk['t']
        if t['t'] == 'assert':
            m = t['msg']
            if m.startswith(IGNORED_ASSERTS):
                continue
            ks = sorted(expr_key(body, o) for o in t['ops']) if m != 'BoundsCheck' and not m.startswith('Overflow(Sub') and not m.startswith('Overflow(Sh') else [expr_key(body, o) for o in t['ops']]
            if m in ('DivisionByZero', 'RemainderByZero'):
                ks = ['dividend=' + k for k in ks]
            out.append(Site(body, i, m, ','.join(ks), t['ops']))
        elif t['t'] == 'call':
            f = t.get('f', '')
            if f.startswith(PANIC_CALLS):
                out.append(Site(body, i, 'panic', '', (), bool(t.get('x'))))
            elif f in UNWRAPS:
                out.append(Site(body, i, 'unwrap', expr_key(body, t['a'][0]), t['a']))
            elif f in INDEXING:
                out.append(Site(body, i, 'index:' + f.split('::')[-1], ','.join(expr_key(body, a) for a in t['a']), t['a']))
    return out


_MIRROR = {'Lt': 'Gt', 'Gt': 'Lt', 'Le': 'Ge', 'Ge': 'Le', 'Eq': 'Eq', 'Ne': 'Ne'}


def _cmp_edges(body, want):
    """edges on which relation `want(a_key, b_key, op)` -> 'T'/'F'/None says which edge is safe"""
    safe = set()
    for (bb, j, op, a, b, dest) in prims.compare_sites(body):
        ka, kb = expr_key(body, a), expr_key(body, b)
        # `a op b` and `b op' a` are the same test: every `want` sees both orientations
        w = want(ka, kb, op, a, b) or want(kb, ka, _MIRROR.get(op, op), b, a)
        if w:
            te, fe = prims.bool_local_edges(body, dest)
            safe |= te if w == 'T' else fe
    for t in body.calls('core::cmp::PartialOrd::lt', 'core::cmp::PartialOrd::le', 'core::cmp::PartialOrd::gt', 'core::cmp::PartialOrd::ge'):
        op = {'lt': 'Lt', 'le': 'Le', 'gt': 'Gt', 'ge': 'Ge'}[t.d['f'].split('::')[-1]]
        ka, kb = expr_key(body, t.d['a'][0]), expr_key(body, t.d['a'][1])
        w = want(ka, kb, op, t.d['a'][0], t.d['a'][1]) or want(kb, ka, _MIRROR.get(op, op), t.d['a'][1], t.d['a'][0])
        if w:
            tr = prims.track_result(None, body, t)
            safe |= tr.success if w == 'T' else tr.failure
    return safe


def _strip(k):
    return re.sub(r'^(deref|as_slice|as_ref|clone|into|from)\((.*)\)$', r'\2', k)


def _eval_key(k):
    """integer value of a canonical key that is a constant expression ('7', 'Add(2,8).0', 'Mul(Add(1,2).0,4).0'), else None"""
    k = k.strip()
    if re.fullmatch(r'-?\d+', k):
        return int(k)
    m = re.fullmatch(r'(Add|Sub|Mul)\((.*)\)(?:\.0)?', k)
    if not m:
        return None
    inner, depth, cut = m.group(2), 0, None
    for i, ch in enumerate(inner):
        if ch in '([':
            depth += 1
        elif ch in ')]':
            depth -= 1
        elif ch == ',' and depth == 0:
            cut = i
            break
    if cut is None:
        return None
    a, b = _eval_key(inner[:cut]), _eval_key(inner[cut + 1:])
    if a is None or b is None:
        return None
    return {'Add': a + b, 'Sub': a - b, 'Mul': a * b}[m.group(1)]


def _array_len_of_key(body, key):
    """N when key is `len(<local>)` and that named local is an array `[T; N]` (the `.len()` of an array through the unsizing cast)"""
    m = re.fullmatch(r'len\((\w+)\)', key)
    if not m or not body.locals:
        return None
    for i in range(len(body.locals)):
        if body.local_name(i) == m.group(1):
            mm = re.search(r'; (\d+)\]$', body.local_ty(i))
            return int(mm.group(1)) if mm and body.local_ty(i).startswith('[') else None
    return None


def _len_keys(base_key):
    b = _strip(base_key)
    return {f'len({b})', f'PtrMetadata({b})', f'len({base_key})', f'PtrMetadata({base_key})'}


def _len_ge_edges(body, base_key, need_const=None, need_key=None):
    """CFG edges after which `len(base) >= need` is known from a comparison of the length with a constant (need_const)
    or with the very expression used as the bound (need_key)."""
    lk = _len_keys(base_key)

    def want(x, y, o, oa, ob):
        if x in lk or y in lk:
            other = y if x in lk else x
            if y in lk and x not in lk:
                # c o len  ==  len o' c
                o = {'Lt': 'Gt', 'Gt': 'Lt', 'Le': 'Ge', 'Ge': 'Le', 'Eq': 'Eq', 'Ne': 'Ne'}.get(o)
            if need_key is not None and other == need_key:
                # len o need
                return {'Lt': 'F', 'Ge': 'T', 'Gt': 'T', 'Eq': 'T', 'Ne': 'F'}.get(o)
            c = _eval_key(other)
            if c is None or need_const is None:
                return None
            if o == 'Lt':
                return 'F' if c >= need_const else None
            if o == 'Ge':
                return 'T' if c >= need_const else None
            if o == 'Le':
                return 'F' if c + 1 >= need_const else None
            if o == 'Gt':
                return 'T' if c + 1 >= need_const else None
            if o == 'Eq':
                return 'T' if c >= need_const else None
            if o == 'Ne':
                return 'F' if c >= need_const else None
        return None
    return _cmp_edges(body, want)


def _len_ge(body, site_bb, base_key, bound_operand):
    """reason string when every path to site_bb establishes len(base) >= bound, else None"""
    kb = expr_key(body, bound_operand)
    c = _eval_key(kb)
    if c is not None and c <= 0:
        return 'bound 0'
    n = _array_len_of_key(body, f'len({_strip(base_key)})')
    if c is not None and n is not None and c <= n:
        return f'constant bound {c} within the {n}-element array {_strip(base_key)}'
    edges = _len_ge_edges(body, base_key, need_const=c, need_key=None if c is not None else kb)
    if edges and site_bb not in prims.reach(body, (0,), cut_edges=edges):
        return f'len({_strip(base_key)}) >= {kb} on every path to the access'
    return None


RANGE_ADTS = {'core::ops::range::Range': ('start', 'end'), 'core::ops::range::RangeTo': (None, 'end'), 'core::ops::range::RangeFrom': ('start', None),
              'core::ops::range::RangeFull': (None, None)}


def _range_of(body, operand):
    """(start_operand|None, end_operand|None) when the operand is a freshly built Range / RangeTo / RangeFrom / RangeFull"""
    pl = op_place(operand)
    if pl is None or len(pl) != 1:
        return None
    ds = [d for d in body.defs.get(pl[0], ()) if not body.is_cleanup(d[0])]
    if len(ds) != 1 or ds[0][2] != 'assign':
        return None
    rv = ds[0][3][1]
    if rv.get('op') != 'agg' or rv.get('adt') not in RANGE_ADTS:
        return None
    want_s, want_e = RANGE_ADTS[rv['adt']]
    vals = dict(zip(rv.get('fields', ()), rv['a']))
    return (vals.get('start') if want_s else None, vals.get('end') if want_e else None)


def _def_call(body, operand, suffixes, hops=4):
    """the call terminator (dict) defining the operand, looking through refs / copies, when its callee ends with one of suffixes"""
    pl = op_place(operand)
    while pl is not None and hops >= 0:
        hops -= 1
        ds = [d for d in body.defs.get(pl[0], ()) if not body.is_cleanup(d[0])]
        if len(ds) != 1:
            return None
        bb, idx, kind, payload = ds[0]
        if kind == 'call':
            return payload if payload.get('f', '').endswith(suffixes) else None
        if kind == 'assign':
            rv = payload[1]
            if rv.get('op') == 'ref':
                pl = rv['pl']
                continue
            if rv.get('op') in ('use', 'cast'):
                pl = op_place(rv['a'][0])
                continue
        return None
    return None


def _discharge_index(body, s, t):
    """slice indexing with a range, split_at: the bound is below the length on every path"""
    f = t.get('f', '')
    if f.endswith(('::index', '::index_mut')):
        rg = _range_of(body, t['a'][1])
        if rg is None:
            return None
        start, end = rg
        base = expr_key(body, t['a'][0])
        reasons = []
        if start is not None and end is not None:
            cs, ce = _eval_key(expr_key(body, start)), _eval_key(expr_key(body, end))
            if cs is None or ce is None or cs > ce:
                return None
            reasons.append(f'constant range {cs}..{ce}')
        top = end if end is not None else start
        if top is None:
            return 'full range'
        r = _len_ge(body, s.bb, base, top)
        if r is None:
            return None
        return '; '.join(reasons + [r])
    if f.endswith(('::split_at', '::split_at_mut')):
        return _len_ge(body, s.bb, expr_key(body, t['a'][0]), t['a'][1])
    return None


def _discharge_unwrap(body, s, t):
    """`<&[T] as TryInto<[T; N]>>::try_into(&x[a..b]).unwrap()` with constant b - a == N"""
    c = _def_call(body, t['a'][0], ('::try_into',))
    if c is None:
        return None
    m = re.search(r'TryInto<\[[^;\]]+; (\d+)\]>', c.get('fa', ''))
    if not m:
        return None
    n = int(m.group(1))
    ix = _def_call(body, c['a'][0], ('::index', '::index_mut'))
    if ix is None:
        return None
    rg = _range_of(body, ix['a'][1])
    if rg is None or rg[0] is None or rg[1] is None:
        return None
    cs, ce = _eval_key(expr_key(body, rg[0])), _eval_key(expr_key(body, rg[1]))
    if cs is not None and ce is not None and ce - cs == n:
        return f'try_into::<[_; {n}]>() of a slice taken with the constant range {cs}..{ce}'
    return None


def discharge(facts, s):
    """Return a reason string when the site cannot fire, else None."""
    body, t = s.body, s.body.bbs[s.bb]['t']
    if body.kind == 'const':
        return 'evaluated at compile time (const item)'
    if s.kind.startswith('Overflow('):
        op = s.kind[9:-1]
        a, b = t['ops'][0], t['ops'][1] if len(t['ops']) > 1 else None
        if op in ('Shl', 'Shr'):
            amt = b
            if amt is not None and 'k' in amt and amt['k'].get('v') is not None:
                bits = _ty_bits(body, a) or 128
                if 0 <= amt['k']['v'] < max(bits, 8):
                    return f'constant shift amount {amt["k"]["v"]}'
            mb = max_bits(body, amt) if amt is not None else None
            return None
        if 'k' in a and b is not None and 'k' in b and a['k'].get('v') is not None and b['k'].get('v') is not None:
            return 'both operands constant'
        if b is not None:
            ka_, kb_ = expr_key(body, a), expr_key(body, b)
            if re.fullmatch(r'-?\d+', ka_) and re.fullmatch(r'-?\d+', kb_):
                va, vb = int(ka_), int(kb_)
                tb_ = _ty_bits(body, a) or _ty_bits(body, b) or 8
                res = {'Add': va + vb, 'Sub': va - vb, 'Mul': va * vb}.get(op)
                if res is not None and 0 <= res < (1 << tb_):
                    return f'constant operands ({va} {op} {vb})'
        if op == 'Add' or op == 'Mul':
            ba, bb_ = max_bits(body, a), max_bits(body, b)
            tb = _ty_bits(body, a) or _ty_bits(body, b)
            if ba and bb_ and tb:
                need = (max(ba, bb_) + 1) if op == 'Add' else (ba + bb_)
                if need <= tb:
                    return f'operands bounded to {ba}+{bb_} bits in a {tb}-bit type'
            # counter + 1 under a dominating `counter < bound`
            if op == 'Add' and 'k' in b and b['k'].get('v') == 1:
                ka = expr_key(body, a)

                def want(x, y, o, oa, ob):
                    if x == ka and o == 'Lt':
                        return 'T'
                    if x == ka and o == 'Ge':
                        return 'F'
                    if y == ka and o == 'Gt':
                        return 'T'
                    if y == ka and o == 'Le':
                        return 'F'
                    return None
                edges = _cmp_edges(body, want)
                if edges and s.bb not in prims.reach(body, (0,), cut_edges=edges):
                    return f'{ka} < bound on every path (incrementing below a bound)'
            return None
        if op == 'Sub':
            ka, kb = expr_key(body, a), expr_key(body, b)
            kbv = b['k'].get('v') if 'k' in b else None

            def want(x, y, o, oa, ob):
                x, y = _strip(x), _strip(y)
                A, B = _strip(ka), _strip(kb)
                if x == A and y == B:
                    return {'Ge': 'T', 'Gt': 'T', 'Lt': 'F', 'Le': None}.get(o)
                if x == B and y == A:
                    return {'Le': 'T', 'Lt': 'T', 'Gt': 'F', 'Ge': None}.get(o)
                if kbv is not None and y == A and 'k' in oa and oa['k'].get('v') is not None:
                    # constant on the left (`0 == self.level`, `1 <= n`): mirror the comparison
                    x, y, oa, ob = y, x, ob, oa
                    o = {'Lt': 'Gt', 'Gt': 'Lt', 'Le': 'Ge', 'Ge': 'Le'}.get(o, o)
                if kbv is not None and x == A and 'k' in ob and ob['k'].get('v') is not None:
                    c = ob['k']['v']
                    if o == 'Ge' and c >= kbv:
                        return 'T'
                    if o == 'Gt' and c >= kbv - 1:
                        return 'T'
                    if o == 'Lt' and c >= kbv:
                        return 'F'
                    if o == 'Le' and c >= kbv - 1:
                        return 'F'
                    if o == 'Eq' and c == 0 and kbv == 1:
                        return 'F'
                    if o == 'Ne' and c == 0 and kbv == 1:
                        return 'T'
                return None
            edges = _cmp_edges(body, want)
            if edges and s.bb not in prims.reach(body, (0,), cut_edges=edges):
                return f'{ka} >= {kb} on every path to the subtraction'
            return None
        return None
    if s.kind == 'BoundsCheck':
        ln, ix = t['ops'][0], t['ops'][1]
        if 'k' in ln and 'k' in ix and ln['k'].get('v') is not None and ix['k'].get('v') is not None and ix['k']['v'] < ln['k']['v']:
            return 'constant index into a fixed-size array'
        kl, ki = expr_key(body, ln), expr_key(body, ix)
        lv = ln['k'].get('v') if 'k' in ln else None

        lks = _len_keys(kl[kl.index('(') + 1:-1]) if kl.startswith(('PtrMetadata(', 'len(')) else set()

        def want(x, y, o, oa, ob):
            if x == ki and y in lks:
                return {'Lt': 'T', 'Ge': 'F'}.get(o)
            if y == ki and x in lks:
                return {'Gt': 'T', 'Le': 'F'}.get(o)
            if x == ki and (y == kl or (lv is not None and 'k' in ob and ob['k'].get('v') is not None and ob['k']['v'] <= lv)
                            or (lv is not None and _array_len_of_key(body, y) == lv)):
                return {'Lt': 'T', 'Ge': 'F'}.get(o)
            if y == ki and x == kl:
                return {'Gt': 'T', 'Le': 'F'}.get(o)
            return None
        edges = _cmp_edges(body, want)
        if edges and s.bb not in prims.reach(body, (0,), cut_edges=edges):
            return f'{ki} < {kl} on every path to the access'
        ci = _eval_key(ki)
        if ci is not None and ci >= 0 and kl.startswith(('PtrMetadata(', 'len(')):
            base = kl[kl.index('(') + 1:-1]
            edges = _len_ge_edges(body, base, need_const=ci + 1)
            if edges and s.bb not in prims.reach(body, (0,), cut_edges=edges):
                return f'len({base}) > {ci} on every path to the access'
        mb = max_bits(body, ix)
        if lv is not None and mb is not None and (1 << mb) <= lv:
            return f'index bounded to {mb} bits, array length {lv}'
        return None
    if s.kind in ('DivisionByZero', 'RemainderByZero'):
        # the assert operand is the dividend; the divisor is what `cond` compares with 0
        c = op_place(t['cond'])
        if c is not None and len(c) == 1:
            ds = [d for d in body.defs.get(c[0], ()) if not body.is_cleanup(d[0])]
            if len(ds) == 1 and ds[0][2] == 'assign' and ds[0][3][1].get('op') == 'bin' and ds[0][3][1].get('b') == 'Eq':
                a, b = ds[0][3][1]['a']
                div = a if ('k' in b and b['k'].get('v') == 0) else b
                if 'k' in div and div['k'].get('v'):
                    return f'constant non-zero divisor {div["k"]["v"]}'
                kd = expr_key(body, div)

                def want(x, y, o, oa, ob):
                    if x == kd and 'k' in ob and ob['k'].get('v') == 0:
                        return {'Eq': 'F', 'Ne': 'T', 'Gt': 'T'}.get(o)
                    return None
                edges = _cmp_edges(body, want)
                if edges and s.bb not in prims.reach(body, (0,), cut_edges=edges):
                    return f'{kd} != 0 on every path to the division'
        return None
    if s.kind.startswith('index:'):
        return _discharge_index(body, s, t)
    if s.kind == 'unwrap':
        return _discharge_unwrap(body, s, t)
    if s.kind == 'panic':
        # `_ => unreachable!()` after a switch that lists every value the scrutinee can take
        reason = _dead_default(facts, body, s.bb)
        if reason:
            return reason
        return None
    return None


def _dead_default(facts, body, bb):
    """bb is reached only through the `otherwise` edge of a switch whose listed values cover every constant the callee
    producing the scrutinee can return."""
    preds = [p for p in body.pred[bb] if not body.is_cleanup(p)]
    seen = set()
    work = list(preds)
    while work:
        p = work.pop()
        if p in seen:
            continue
        seen.add(p)
        t = body.bbs[p]['t']
        if t['t'] == 'switch':
            if t['else'] not in ({bb} | seen) and bb != t['else']:
                return None
            on = t['on']
            pl = op_place(on)
            if pl is None or len(pl) != 1:
                return None
            ds = [d for d in body.defs.get(pl[0], ()) if not body.is_cleanup(d[0])]
            # follow one copy
            while len(ds) == 1 and ds[0][2] == 'assign' and ds[0][3][1].get('op') == 'use' and op_place(ds[0][3][1]['a'][0]) and len(op_place(ds[0][3][1]['a'][0])) == 1:
                ds = [d for d in body.defs.get(op_place(ds[0][3][1]['a'][0])[0], ()) if not body.is_cleanup(d[0])]
            if len(ds) == 1 and ds[0][2] == 'call':
                callee = ds[0][3].get('r') or ds[0][3].get('f')
                cb = facts.bodies.get(callee) if facts else None
                if cb is not None and cb.focus:
                    rd = prims.result_defs(cb)
                    if rd and all(k == 'const' and v is not None for (_b, k, v) in rd):
                        vals = {v for (_b, k, v) in rd}
                        listed = {v for v, _t in t['tg']}
                        if vals <= listed:
                            return f'unreachable default arm: {callee.split("::")[-1]}() returns only {sorted(vals)}, all listed'
            return None
        elif t['t'] in ('goto', 'fedge', 'funwind', 'drop'):
            work.extend(q for q in body.pred[p] if not body.is_cleanup(q))
        else:
            return None
    return None


def length_lower_bounds(body, site_bb):
    """{len-key: K}: the lower bounds `len(x) >= K` (K constant) that hold on EVERY path from the function entry to site_bb, read off the
    comparisons of a length with a constant.  An audited entry usually rests on exactly such a guard; tools/p7_genaudit.py records these
    bounds next to the audit (rules/p7_guards.json) and analyse() refuses the audit when a recorded bound got weaker or disappeared."""
    out = {}
    cands = []
    for (bb, j, op, a, b, dest) in prims.compare_sites(body):
        ka, kb = expr_key(body, a), expr_key(body, b)
        for (x, y, o) in ((ka, kb, op), (kb, ka, _MIRROR.get(op, op))):
            if (x.startswith('len(') or x.startswith('PtrMetadata(')) and _eval_key(y) is not None:
                c = _eval_key(y)
                te, fe = prims.bool_local_edges(body, dest)
                # edge set on which len >= K is known, and K
                for edges, k in ((fe, c) if o == 'Lt' else (te, c) if o in ('Ge', 'Eq') else (fe, c + 1) if o == 'Le' else (te, c + 1) if o == 'Gt' else (fe, c) if o == 'Ne' else (None, None),):
                    if edges:
                        cands.append((re.sub(r'^PtrMetadata\(', 'len(', x), k, edges))
    for t in body.calls('core::cmp::PartialOrd::lt', 'core::cmp::PartialOrd::le', 'core::cmp::PartialOrd::gt', 'core::cmp::PartialOrd::ge'):
        op = {'lt': 'Lt', 'le': 'Le', 'gt': 'Gt', 'ge': 'Ge'}[t.d['f'].split('::')[-1]]
        ka, kb = expr_key(body, t.d['a'][0]), expr_key(body, t.d['a'][1])
        for (x, y, o) in ((ka, kb, op), (kb, ka, _MIRROR.get(op, op))):
            if (x.startswith('len(') or x.startswith('PtrMetadata(')) and _eval_key(y) is not None:
                c = _eval_key(y)
                tr = prims.track_result(None, body, t)
                edges, k = (tr.failure, c) if o == 'Lt' else (tr.success, c) if o == 'Ge' else (tr.failure, c + 1) if o == 'Le' else (tr.success, c + 1)
                if edges:
                    cands.append((re.sub(r'^PtrMetadata\(', 'len(', x), k, edges))
    for key, k, edges in cands:
        if k <= 0:
            continue
        if site_bb not in prims.reach(body, (0,), cut_edges=edges):
            out[key] = max(out.get(key, 0), k)
    return out


_GUARDS = None


def load_guards():
    global _GUARDS
    if _GUARDS is None:
        p = os.path.join(os.path.dirname(os.path.abspath(__file__)), 'p7_guards.json')
        _GUARDS = json.load(open(p)) if os.path.exists(p) else {}
    return _GUARDS


def _guards_hold(body, s, key):
    """None when every length guard recorded for this audited entry still dominates the site at least as strongly; else the explanation"""
    rec = load_guards().get(key)
    if not rec:
        return None
    now = length_lower_bounds(body, s.bb)
    weak = [f'{k} >= {v} (now: {now.get(k, "no such guard")})' for k, v in sorted(rec.items()) if now.get(k, 0) < v]
    return ', '.join(weak) if weak else None


def analyse(R, rule, bodies, audited, prop):
    """Emit one obligation per function: all its panic-capable sites discharged."""
    total = 0
    nbod = 0
    used_audit = set()
    for b in sorted(bodies, key=lambda x: x.fn):
        ss = sites_of(b)
        if not ss:
            continue
        nbod += 1
        undis = []
        panics = [s for s in ss if s.kind == 'panic']
        others = [s for s in ss if s.kind != 'panic']
        reasons = {}
        for s in others:
            total += 1
            why = discharge(R.facts, s)
            if why is None and s.key() in audited:
                gone = _guards_hold(b, s, s.key())
                if gone:
                    R.fail(rule, b.fn, f'the length guard an audited panic-capable site rests on is still in force: {s.kind} {s.detail}',
                           f'{s.kind} on [{s.detail}] at {s.where()} was audited as unreachable with hostile input under the dominating guard(s) {gone}; '
                           'the guard is weaker than the audit assumed or gone', s.where(), key=f'{rule}|{s.key()}|guard')
                    used_audit.add(s.key())
                    reasons[s.key()] = 'audited (guard weakened - reported)'
                    continue
                why = 'audited: ' + audited[s.key()]
                used_audit.add(s.key())
            if why is None:
                undis.append(s)
            else:
                reasons[s.key()] = why
        live_panics = []
        for s in panics:
            total += 1
            why = discharge(R.facts, s)
            if why is None:
                live_panics.append(s)
        if live_panics:
            k = f"{b.fn}|panic|x{len(live_panics)}"
            if k in audited:
                used_audit.add(k)
            else:
                for s in live_panics:
                    undis.append(s)
        if undis:
            for s in undis:
                kk = s.key() if s.kind != 'panic' else f"{b.fn}|panic|x{len(live_panics)}"
                R.fail(rule, b.fn, f'panic-capable site cannot be reached with hostile input: {s.kind} {s.detail}',
                       f'{s.kind} on [{s.detail}] at {s.where()} is not discharged by a dominating check, a width bound, a constant argument or an audited entry',
                       s.where(), key=f'{rule}|{kk}')
        else:
            R.ok(rule, b.fn, f'all {len(ss)} panic-capable site(s) discharged', '; '.join(sorted(set(reasons.values())))[:300] or 'audited panic arms', f'{b.file}:{b.line}')
    return total, nbod, used_audit
