"""C12 - Durable counters never hand out the same value twice, across restarts too (structural clauses)."""
from common import (mentions, closure_in, async_body, closure_arg_sites, ok_return_bbs, call_bbs, named_local, src_calls,
                    src_fields, src_consts, bodies_of, result_used, agg_flowing_to)
from facts import AnchorLost, op_place
import prims

EXPLANATION = """
Static structural rules over transport/{session,exchange}.rs, im/events.rs and dm/clusters/icd_mgmt.rs:
(a) store precedes use: in Exchange::initiate_group, on the path where a new boundary was returned, opening the exchange
(initiate_for_session) and stashing the reserved value are reachable only over the success edge of the
KvBlobStoreAccess::access(store GROUP_DATA_COUNTER_KEY) call, and the value stored is that very boundary;
reserve_global_group_data_ctr is #[must_use], crate-private and called only there; the reserved value reaches the wire only
through ExchangeState.group_data_ctr, read only by Session::pre_send;
(b) boundary provenance: in reserve_global_group_data_ctr the returned Some(b) is the value kept in group_data_ctr_boundary,
it is produced on the `counter == boundary` edge only, the value handed out is the counter before it is advanced, and the
counter is advanced by exactly one step; set_global_group_data_ctr assigns counter and boundary from the same value;
(c) resume at the stored boundary: Sessions::load_persist feeds the bytes loaded under GROUP_DATA_COUNTER_KEY to
resume_global_group_data_ctr; Sessions::reset_persist removes the key;
(d) event numbers: in EventsInner::next_event_number, from the epoch store call the counter write and the Ok return are
reachable only over the store's success edge, the stored value lies an epoch ahead, and load assigns the counter from
the stored epoch; check-in counter: Icd::advance_counter stores every boundary advance() returns and propagates the error;
invalidate_counter is #[must_use].
"""
CLAUSES = ['a: boundary stored before the reserved value can be used', 'b: boundary provenance and single-step advance', 'c: resume at the stored boundary', 'd: event-number epoch and check-in counter']
NOT_DECIDED = ['epoch / wrap-around arithmetic', 'a failing (not crashing) key-value store after the in-memory boundary moved (outside the stated quantifier; DESIGN §5 F5)',
               'that the application issues the check-in store operations']
THOROUGH_CONFIGS = ['q', 'r']
MIN_OBLIGATIONS = {'q': 20, 'd': 6, 'r': 20}

SESSIONS = 'transport::session::Sessions'
EX = 'transport::exchange::Exchange'
KEY = 'persist::GROUP_DATA_COUNTER_KEY'


def check(R):
    F = R.facts
    groups = 'groups' in (F.hdr.get('features') or '')
    # ---- a --------------------------------------------------------------------
    if groups:
      with R.clause('a'):
        ig = R.body(EX + '::initiate_group')
        bnd = named_local(ig, 'boundary')
        some_edges, _ = prims.enum_local_edges(F, ig, lambda pl: pl[0] in bnd and len(pl) == 1, 'core::option::Option', ['Some'])
        R.expect('P2', ig.fn, 'the returned boundary is tested', bool(some_edges), f'{sorted(some_edges)}', 'no branch on `boundary`')
        acc = [t for t in ig.calls() if t.d.get('f', '').endswith('KvBlobStoreAccess::access')]
        R.floor('kv.access in initiate_group', len(acc), 1)
        stc = closure_in(R, EX + '::initiate_group', ['KvBlobStore::store'])
        st = stc.calls('persist::KvBlobStore::store')[0]
        ks = prims.sources(stc, st.d['a'][1])
        vs = prims.sources(stc, st.d['a'][2], through={'core::num::<impl u32>::to_le_bytes'})
        R.expect('P10', stc.fn, 'the boundary is stored under GROUP_DATA_COUNTER_KEY', any(x[0] == 'constp' and x[1] == KEY for x in ks) and any(x[0] == 'upvar' and x[1].split('.')[0].lstrip('*') in {ig.local_name(l) for l in bnd} for x in vs),
                 'store(GROUP_DATA_COUNTER_KEY, boundary.to_le_bytes())', f'key {sorted(map(str, ks))[:3]} value {sorted(map(str, vs))[:4]}', stc.where(st.bb))
        result_used(R, 'P8', stc, ('persist::KvBlobStore::store',))
        uses = call_bbs(ig, EX + '::initiate_for_session')
        stash = closure_in(R, EX + '::initiate_group', ['Sessions::get'])
        ssites = closure_arg_sites(ig, stash.fn)
        R.floor('with_state(stash reservation) site', len(ssites), 1)
        succ = set()
        for t in acc:
            succ |= prims.track_result(F, ig, t).success
        for (frm, to) in sorted(some_edges):
            R.cut_from('P2', ig, to, 'open the exchange / stash the reserved counter value', uses + [s.bb for s in ssites], 'the boundary store succeeded', succ)
        fw = [i for i, j, s in stash.field_writes('group_data_ctr:transport::exchange::ExchangeState')]
        R.floor('write of ExchangeState.group_data_ctr', len(fw), 1)
        R.callers_confined('P1', SESSIONS + '::reserve_global_group_data_ctr', {EX + '::initiate_group'})
        b = F.bodies[SESSIONS + '::reserve_global_group_data_ctr']
        R.expect('P5', b.fn, 'reserve_global_group_data_ctr is #[must_use] and not public', b.rec.get('must_use') is True and b.rec.get('vis') != 'pub', 'must_use, crate-private',
                 f"must_use={b.rec.get('must_use')} vis={b.rec.get('vis')}")
        # the reservation stamps ONE message: Session::pre_send consumes it (Option::take on the exchange's group_data_ctr) - a second
        # send on the same exchange finds None and is refused instead of going out under the same counter value
        ps_ = R.body('transport::session::Session::pre_send')
        takes = [t for b_ in [ps_] + list(F.nested(ps_.fn)) for t in b_.calls('core::option::Option::take') + b_.calls('core::mem::take')
                 if any(f == 'group_data_ctr:transport::exchange::ExchangeState' for f in src_fields(prims.sources(b_, t.d['a'][0])))]
        reads = [b_.fn for b_ in [ps_] + list(F.nested(ps_.fn)) if prims.field_read_locals(b_, 'group_data_ctr:transport::exchange::ExchangeState')
                 or any(st[1].get('op') == 'ref' and any(x == '.group_data_ctr:transport::exchange::ExchangeState' for x in st[1]['pl'][1:] if isinstance(x, str)) for i, j, st in b_.stmts())]
        R.expect('P10', ps_.fn, 'the reserved group data counter is consumed when it is stamped (Option::take), so it stamps one message only', len(takes) >= 1 and len(takes) >= len(set(reads)),
                 f'{len(takes)} take() on ExchangeState.group_data_ctr', f'ExchangeState.group_data_ctr is read in {sorted(set(reads))} with {len(takes)} take(): the reservation stays on the exchange and '
                 'every further message of that exchange repeats the counter value (and the nonce)')
        R.writers_confined('P1', 'group_data_ctr:transport::exchange::ExchangeState', {EX + '::initiate_group', 'transport::session::Session::add_exch', 'transport::exchange::ExchangeState::new'}, min_sites=1)
        readers = set()
        for bb_ in F.bodies.values():
            if bb_.focus and bb_.fn.startswith('transport::'):
                if prims.field_read_locals(bb_, 'group_data_ctr:transport::exchange::ExchangeState') or any(
                        s[1].get('op') == 'ref' and any(x == '.group_data_ctr:transport::exchange::ExchangeState' for x in s[1]['pl'][1:] if isinstance(x, str)) for i, j, s in bb_.stmts()):
                    readers.add(F.owner_fn(bb_.fn))
        R.confine('P1', 'readers of ExchangeState.group_data_ctr', readers, {'transport::session::Session::pre_send', EX + '::initiate_group'})

    # ---- b --------------------------------------------------------------------
    if groups:
      with R.clause('b'):
        rs = R.body(SESSIONS + '::reserve_global_group_data_ctr')
        tp = named_local(rs, 'to_persist')
        somes = agg_flowing_to(rs, tp, 'Some')
        R.floor('to_persist = Some(boundary)', len(somes), 1)
        eq = prims.cmp_guard_edges(rs, 'Eq', lambda s: mentions(s, 'global_group_data_ctr'), lambda s: mentions(s, 'group_data_ctr_boundary'))
        te = set()
        for bb, t_, f_ in eq:
            te |= t_
        R.cut('P2', rs, 'move the boundary / request a store', somes + [i for i, j, s in rs.field_writes('group_data_ctr_boundary:' + SESSIONS)], 'counter == boundary', te)
        nones = agg_flowing_to(rs, tp, 'None')
        fe = set()
        for bb, t_, f_ in eq:
            fe |= f_
        R.cut('P2', rs, 'skip the store (to_persist = None)', nones, 'counter != boundary', fe)
        for i in somes:
            for st in rs.bbs[i]['s']:
                if st[1].get('op') == 'agg' and st[1].get('var') == 'Some':
                    s = prims.sources(rs, st[1]['a'][0])
                    R.expect('P10', rs.fn, 'the boundary the caller is told to store is the one kept in memory', mentions(s, 'group_data_ctr_boundary') or SESSIONS + '::advance_group_data_ctr' in src_calls(s),
                             'Some(self.group_data_ctr_boundary)', f'{sorted(map(str, s))[:4]}', rs.where(i))
        adv = rs.calls(SESSIONS + '::advance_group_data_ctr')
        R.floor('advance_group_data_ctr calls in reserve', len(adv), 2)
        deltas = sorted((t.d['a'][1].get('k', {}).get('v'), t.d['a'][1].get('k', {}).get('p')) for t in adv)
        R.expect('P6', rs.fn, 'the counter advances by one, the boundary by one epoch', (1, None) in deltas and any(p == 'transport::session::GROUP_DATA_CTR_EPOCH' for v, p in deltas), str(deltas), str(deltas))
        R.expect('P6', 'transport::session::GROUP_DATA_CTR_EPOCH', 'epoch size is positive', F.const_val('transport::session::GROUP_DATA_CTR_EPOCH') > 0, 'ok', '0')
        val = named_local(rs, 'value')
        cw = [(i, j, s) for i, j, s in rs.field_writes('global_group_data_ctr:' + SESSIONS)]
        R.floor('counter write in reserve', len(cw), 1)
        for i, j, s in cw:
            ss = set()
            for a in s[1].get('a', ()):
                ss |= prims.sources(rs, a)
            R.expect('P10', rs.fn, 'the counter is advanced from the value just handed out', SESSIONS + '::advance_group_data_ctr' in src_calls(ss), 'advance(value, 1)', f'{sorted(map(str, ss))[:4]}', rs.where(i, j))
        okb = ok_return_bbs(rs)
        for i in okb:
            for st in rs.bbs[i]['s']:
                if st[1].get('op') == 'agg' and st[1].get('var') == 'Ok':
                    s = prims.sources(rs, st[1]['a'][0])
                    R.expect('P10', rs.fn, 'the value handed out is the counter read before advancing', mentions(s, 'global_group_data_ctr') and not (SESSIONS + '::advance_group_data_ctr' in src_calls(s) and not mentions(s, 'group_data_ctr_boundary')) or any(l in val for l in _flow_locals(rs, st[1]['a'][0])),
                             'Ok((value, to_persist))', f'{sorted(map(str, s))[:5]}', rs.where(i))
        sg = R.body(SESSIONS + '::set_global_group_data_ctr')
        ws = {f: [s for i, j, s in sg.field_writes(f + ':' + SESSIONS)] for f in ('global_group_data_ctr', 'group_data_ctr_boundary')}
        R.expect('P10', sg.fn, 'counter and boundary are set from the same value', all(len(v) == 1 and ('arg', 2) in prims.sources(sg, v[0][1]['a'][0]) for v in ws.values()), 'both <= value', str({k: len(v) for k, v in ws.items()}))
        for f in ('global_group_data_ctr', 'group_data_ctr_boundary'):
            R.writers_confined('P1', f + ':' + SESSIONS, {SESSIONS + '::new', SESSIONS + '::init', SESSIONS + '::set_global_group_data_ctr', SESSIONS + '::reserve_global_group_data_ctr',
                               SESSIONS + '::reset_persist', SESSIONS + '::reset'})

    # ---- c --------------------------------------------------------------------
    if groups:
      with R.clause('c'):
        lp = R.body(SESSIONS + '::load_persist')
        ld = lp.calls('persist::KvBlobStore::load')
        R.floor('load in Sessions::load_persist', len(ld), 1)
        R.expect('P10', lp.fn, 'the boundary is loaded from GROUP_DATA_COUNTER_KEY', any(x[0] == 'constp' and x[1] == KEY for x in prims.sources(lp, ld[0].d['a'][1])), 'ok', 'other key')
        rsm = lp.calls(SESSIONS + '::resume_global_group_data_ctr')
        R.floor('resume_global_group_data_ctr in load_persist', len(rsm), 1)
        s = prims.sources(lp, rsm[0].d['a'][1], through={'core::num::<impl u32>::from_le_bytes'})
        R.expect('P10', lp.fn, 'the counter resumes at the loaded boundary', 'persist::KvBlobStore::load' in src_calls(s) and 'core::num::<impl u32>::from_le_bytes' in src_calls(s) and not [c for c in src_consts(s) if c is not None],
                 'resume(u32::from_le_bytes(data))', f'{sorted(map(str, s))[:6]}', lp.where(rsm[0].bb))
        R.cut('P2', lp, 'resume the counter', [rsm[0].bb], 'a stored boundary exists', lambda: _inner_success(R, lp, ld))
        ru = R.body(SESSIONS + '::resume_global_group_data_ctr')
        R.expect('P4', ru.fn, 'resume goes through set_global_group_data_ctr', SESSIONS + '::set_global_group_data_ctr' in ru.calls_summary, 'ok', 'no')
        R.expect('P4', 'Matter::startup', 'start-up loads the group counter boundary', any(SESSIONS + '::load_persist' in b.calls_summary for b in bodies_of(F, 'Matter::startup')), 'ok', 'Sessions::load_persist not called at start-up')

    # ---- d --------------------------------------------------------------------
    with R.clause('d'):
        ne = R.body('im::events::EventsInner::next_event_number')
        st = ne.calls('persist::Persist::store_tlv')
        R.floor('epoch store in next_event_number', len(st), 1)
        ks = prims.sources(ne, st[0].d['a'][1])
        R.expect('P10', ne.fn, 'the epoch is stored under EVENT_EPOCH_KEY', any(x[0] == 'constp' and x[1] == 'persist::EVENT_EPOCH_KEY' for x in ks), 'ok', f'{sorted(map(str, ks))[:3]}')
        wr = [i for i, j, s in ne.field_writes('next_event_number:im::events::EventsInner')]
        R.floor('counter write in next_event_number', len(wr), 1)
        R.cut_from('P2', ne, st[0].bb, 'advance the counter / return the number', wr + ok_return_bbs(ne), 'the epoch store succeeded', lambda: R.call_guard(ne, 'persist::Persist::store_tlv'))
        vs = prims.sources(ne, st[0].d['a'][2], through={'core::num::<impl u64>::wrapping_add', 'core::cmp::Ord::max'})
        R.expect('P10', ne.fn, 'the stored epoch lies one epoch size ahead', any(x[0] == 'constp' and x[1].endswith('EVENT_NUMBER_EPOCH_SIZE') for x in vs), '+ EVENT_NUMBER_EPOCH_SIZE', f'{sorted(map(str, vs))[:5]}')
        vs2 = prims.sources(ne, st[0].d['a'][2], through={'core::cmp::Ord::max'})
        callz = {c for c in src_calls(vs2) if c.startswith('core::num::')}
        R.expect('P10', ne.fn, 'the stored boundary is the current number plus one epoch (a sum, strictly ahead), or the first epoch', 'core::num::<impl u64>::wrapping_add' in callz and
                 callz <= {'core::num::<impl u64>::wrapping_add', 'core::num::<impl u64>::checked_add', 'core::num::<impl u64>::saturating_add'},
                 'event_number.wrapping_add(EPOCH).max(1) | EPOCH', f'the value stored is computed with {sorted(callz)}: it is not a sum with the epoch size, so it may not lie ahead of the numbers about to be handed out')
        R.expect('P6', 'im::events::EVENT_NUMBER_EPOCH_SIZE', 'epoch size is positive', F.const_val('im::events::EVENT_NUMBER_EPOCH_SIZE') > 0, 'ok', '0')
        cond = ne.calls('core::num::<impl u64>::is_multiple_of')
        R.expect('P2', ne.fn, 'the store is triggered at every epoch boundary (is_multiple_of(EPOCH)) and at 1', len(cond) == 1 and any(x[0] == 'constp' and x[1].endswith('EVENT_NUMBER_EPOCH_SIZE') for x in prims.sources(ne, cond[0].d['a'][1]))
                 and any(1 in src_consts(prims.sources(ne, c[3]) | prims.sources(ne, c[4])) for c in prims.compare_sites(ne, ops=('Eq',))), 'n == 1 || n % EPOCH == 0', 'epoch condition changed')
        # skipping the store is only possible when not at an epoch start
        skip = set()
        for t in cond:
            skip |= prims.track_result(F, ne, t).failure
        R.cut('P2', ne, 'advance the counter', wr, 'epoch store ok, or not at an epoch boundary', lambda: R.call_guard(ne, 'persist::Persist::store_tlv') | skip)
        el = R.body('im::events::EventsInner::load')
        w = [s for i, j, s in el.field_writes('next_event_number:im::events::EventsInner')]
        R.expect('P10', el.fn, 'the counter restarts from the stored epoch', len(w) == 1 and ('arg', 2) in prims.sources(el, w[0][1]['a'][0], through={'tlv::read::TLVElement::new', 'tlv::read::TLVElement::u64'}),
                 'next_event_number = TLV(data).u64()', 'not from the loaded data')
        lp = R.body('im::events::EventsInner::load_persist')
        R.expect('P10', lp.fn, 'load reads EVENT_EPOCH_KEY', any(any(x[0] == 'constp' and x[1] == 'persist::EVENT_EPOCH_KEY' for x in prims.sources(lp, t.d['a'][1])) for t in lp.calls('persist::KvBlobStore::load')), 'ok', 'other key')
        R.writers_confined('P1', 'next_event_number:im::events::EventsInner', {'im::events::EventsInner::next_event_number', 'im::events::EventsInner::load', 'im::events::EventsInner::new',
                           'im::events::EventsInner::init', 'im::events::EventsInner::reset'})
        # check-in counter
        ac = R.body('dm::clusters::icd_mgmt::Icd::advance_counter')
        tp = named_local(ac, 'to_persist')
        se, _ = prims.enum_local_edges(F, ac, lambda pl: pl[0] in tp and len(pl) == 1, 'core::option::Option', ['Some'])
        stc = call_bbs(ac, 'persist::KvBlobStore::store')
        bad = prims.always_followed_by(ac, [e[1] for e in se], stc)
        R.expect('P3', ac.fn, 'every boundary the check-in counter returns is stored', bool(se) and not bad, 'Some(v) -> kv.store', 'a Some(v) path skips the store')
        result_used(R, 'P8', ac, ('persist::KvBlobStore::store',))
        # the application-driven store (after load_counter / invalidate_counter) is unconditional: "the store already holds a later value"
        # is not decidable by an integer comparison across the 32-bit wrap, and skipping it leaves the old boundary on flash
        pc = R.body('dm::clusters::icd_mgmt::Icd::persist_counter')
        pst = call_bbs(pc, 'persist::KvBlobStore::store')
        miss = prims.precedes(pc, pst, ok_return_bbs(pc) + [bb for bb, k, pl_ in prims.result_defs(pc) if k == 'call' and pl_.get('f', '').endswith('KvBlobStore::store')])
        R.expect('P3', pc.fn, 'every successful persist_counter has written the boundary', not miss, 'kv.store precedes every Ok', f'Ok at {[pc.where(b) for b in miss]} without a store')
        CC = 'sc::checkin::CheckInCounter'
        ab = R.body(CC + '::advance_by')
        dist = named_local(ab, 'dist_to_boundary')
        cmpz = [c for c in prims.compare_sites(ab) if any(l in dist for l in _flow_locals(ab, c[3]) | _flow_locals(ab, c[4]))]
        okc = False
        if len(cmpz) == 1:
            bb, j, op, a1, a2, d = cmpz[0]
            l_is_dist = any(l in dist for l in _flow_locals(ab, a1))
            okc = (op == 'Ge' and not l_is_dist) or (op == 'Le' and l_is_dist)
        R.expect('P10', ab.fn, 'a jump that reaches the stored boundary (delta >= distance) re-anchors and asks for a store', okc, 'delta >= dist_to_boundary',
                 f'comparison is {[c[2] for c in cmpz]}: a jump landing exactly on the boundary is not persisted')
        somes = ok_return_bbs(ab, 'Some', 'core::option::Option')
        R.floor('Some(boundary) in advance_by', len(somes), 1)
        ws = [i for i, j, s in ab.field_writes('next_epoch:' + CC)]
        R.expect('P3', ab.fn, 'the boundary returned for storing is the one kept', bool(ws) and not prims.precedes(ab, ws, somes), 'next_epoch written before Some(next_epoch)', 'Some(..) without moving next_epoch')
        adv = R.body(CC + '::advance')
        eqs = [c for c in prims.compare_sites(adv, ops=('Eq',)) if mentions(prims.sources(adv, c[3]) | prims.sources(adv, c[4]), 'next_epoch') and mentions(prims.sources(adv, c[3]) | prims.sources(adv, c[4]), 'value')]
        R.expect('P10', adv.fn, 'a single step asks for a store exactly when it lands on the boundary', len(eqs) == 1, 'value == next_epoch', f'{len(eqs)} equality tests')
        ic = F.bodies.get('dm::clusters::icd_mgmt::Icd::invalidate_counter')
        R.expect('P5', 'dm::clusters::icd_mgmt::Icd::invalidate_counter', 'invalidate_counter is #[must_use]', ic is not None and ic.rec.get('must_use') is True, 'must_use', 'not must_use')


def _inner_success(R, body, sites):
    e = set()
    for t in sites:
        e |= prims.track_result(R.facts, body, t, inner=1).success
    return e


def _flow_locals(body, operand):
    out = set()
    p = op_place(operand)
    if not p:
        return out
    work = [p[0]]
    while work:
        l = work.pop()
        if l in out:
            continue
        out.add(l)
        for (bb, i, kind, payload) in body.defs.get(l, ()):
            if kind == 'assign':
                for a in payload[1].get('a', ()):
                    q = op_place(a)
                    if q:
                        work.append(q[0])
    return out
