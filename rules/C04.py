"""C04 - A message counter is accepted at most once per secure peer; newer ones always."""
from common import (agg_flowing_to, mentions, closure_in, ok_return_bbs, call_bbs, named_local, src_calls, src_fields, src_consts)
from facts import AnchorLost, op_place
import prims

EXPLANATION = """
Static structural rules over transport/dedup.rs and transport/session.rs:
(a) in Session::post_recv every exchange-level effect (get_exch_for_rx, add_exch, ExchangeState::post_recv) is
unreachable once the TRUE edge of RxCtrState::post_recv is deleted - no path bypasses the window;
(b) in get_or_create_for_group_rx the group counter check is cut by the Some edge of the authenticated-key result,
which is only assigned on the Some edge of try_group_decrypt, and session creation is cut by the counter check;
(c) RxCtrState fields have confined writers; RxCtrState::post_recv has exactly the unicast caller (rollover = false,
encrypted <= self.is_encrypted()) and the group caller ((true, true)); the window length constant is 16 and both
window tests use it;
(d) window bits have a legitimate origin: on the forward (advancing) path of RxCtrState::post_recv no constant is
stored to the bitmap - the new bitmap derives from the old bitmap and the distance - and the only constant
'all received' store is cut by the not-encrypted edge (peer restart on an unsecured session).
"""
CLAUSES = ['a: duplicate check precedes every exchange effect', 'b: group check only after authentication, for every group data message, against the window of exactly this (fabric, node)', 'c: window state confined, modes fixed, window length 16',
           'd: window bits have a legitimate origin; an unsecured restart is always accepted']
NOT_DECIDED = ['the general (bitmap, distance) arithmetic over all histories', 'roll-over comparison', 'LRU eviction of tracked group senders']
MIN_OBLIGATIONS = {'q': 14, 'd': 10, 'r': 14}

RX = 'transport::dedup::RxCtrState'
SESS = 'transport::session::Session'


def check(R):
    F = R.facts
    groups = 'groups' in (F.hdr.get('features') or '')
    # ---- a --------------------------------------------------------------------
    with R.clause('a'):
        pass
        pr = R.body(SESS + '::post_recv')
        g = lambda: R.call_guard(pr, RX + '::post_recv')
        for nm in (SESS + '::get_exch_for_rx', SESS + '::add_exch', 'transport::exchange::ExchangeState::post_recv'):
            R.cut('P2', pr, nm.split('::')[-2] + '::' + nm.split('::')[-1], call_bbs(pr, nm), 'RxCtrState::post_recv == true', g)
        R.cut('P2', pr, 'return Ok', ok_return_bbs(pr), 'RxCtrState::post_recv == true', g)
        # the window call itself may sit in Session::post_recv or in a helper method of Session it calls (a wrapper, see call_guard)
        wsites = [(b_, t) for b_ in F.bodies.values() if b_.focus and b_.fn.startswith(SESS + '::') and '::tests::' not in b_.fn for t in b_.calls(RX + '::post_recv')]
        R.floor('RxCtrState::post_recv call in Session', len(wsites), 1)
        for wb_, t in wsites:
            a = t.d['a']
            s_state = prims.sources(wb_, a[0])
            s_ctr = prims.sources(wb_, a[1])
            s_enc = prims.sources(wb_, a[2])
            R.expect('P10', wb_.fn, 'the window consulted is this session\'s rx_ctr_state with the header counter',
                     mentions(s_state, 'rx_ctr_state') and mentions(s_ctr, 'ctr') and mentions(s_ctr, 'plain'), 'rx_ctr_state.post_recv(rx_header.plain.ctr, ..)',
                     f'state {sorted(map(str, s_state))[:4]} ctr {sorted(map(str, s_ctr))[:4]}', wb_.where(t.bb))
            R.expect('P6', wb_.fn, 'unicast mode: encrypted <= self.is_encrypted(), rollover = false',
                     SESS + '::is_encrypted' in src_calls(s_enc) and a[3].get('k', {}).get('v') == 0, 'post_recv(ctr, self.is_encrypted(), false)',
                     f'enc {sorted(map(str, s_enc))[:4]} rollover {a[3]}', wb_.where(t.bb))

    # ---- b --------------------------------------------------------------------
    with R.clause('b'):
        pass
        if groups:
            gr = R.body('transport::session::Sessions::get_or_create_for_group_rx')
            gk = named_local(gr, 'group_key_found')
            okor = [t for t in gr.calls('core::option::Option::ok_or') if (op_place(t.d['a'][0]) or [None])[0] in gk
                    or any(x in gk for x in _locals_of(prims, gr, t.d['a'][0]))]
            R.floor('group_key_found.ok_or(..)', len(okor), 1)
            gsome = lambda: R.call_guard(gr, 'core::option::Option::ok_or', pick=lambda t: t.bb in {o.bb for o in okor})
            R.cut('P2', gr, 'GroupCtrStore::post_recv', call_bbs(gr, 'transport::dedup::GroupCtrStore::post_recv'), 'an operational key authenticated the message', gsome)
            def ctr_or_control():
                e = R.call_guard(gr, 'transport::dedup::GroupCtrStore::post_recv')
                for l in named_local(gr, 'is_control'):
                    e |= prims.bool_local_edges(gr, l)[0]
                return e
            R.cut('P2', gr, 'create the group session', call_bbs(gr, 'transport::session::Sessions::add'),
                  'GroupCtrStore::post_recv == true (or control message)', ctr_or_control)
            somes = agg_flowing_to(gr, gk, 'Some')
            R.floor('group_key_found = Some(..)', len(somes), 1)
            R.cut('P2', gr, 'group_key_found = Some(..)', somes, 'try_group_decrypt returned Some',
                  lambda: R.call_guard(gr, 'transport::session::Sessions::try_group_decrypt'))
            tg = R.body('transport::session::Sessions::try_group_decrypt')
            somes = ok_return_bbs(tg, 'Some', 'core::option::Option')
            R.floor('Some returns of try_group_decrypt', len(somes), 1)
            decs = [c for c in tg.calls_summary if 'decode_remaining' in c or 'decrypt' in c]
            R.floor('decode call in try_group_decrypt', len(decs), 1)
            R.cut('P2', tg, 'return Some(range)', somes, 'decrypt/decode ok', lambda: R.call_guard(tg, *decs))
            gs = R.body('transport::dedup::GroupCtrStore::post_recv')
            calls = gs.calls(RX + '::post_recv')
            R.floor('RxCtrState::post_recv in GroupCtrStore::post_recv', len(calls), 1)
            for t in calls:
                a = t.d['a']
                R.expect('P6', gs.fn, 'group mode: encrypted = true, rollover = true', a[2].get('k', {}).get('v') == 1 and a[3].get('k', {}).get('v') == 1,
                         'post_recv(ctr, true, true)', f'args {a[2]} {a[3]}', gs.where(t.bb))
            R.callers_confined('P1', 'transport::dedup::GroupCtrStore::post_recv', {'transport::session::Sessions::get_or_create_for_group_rx'})
            # every group DATA message passes the per-sender window: it never joins an existing session (the ephemeral RX session of an
            # earlier message of the same sender matches is_for_rx) - in decode_packet the session lookup get_for_rx is cut by
            # "not a group-session packet, or a control message"
            dp = closure_in(R, 'transport::TransportRunner::decode_packet', ['Sessions::get_for_rx', 'Sessions::get_or_create_for_group_rx'])

            def not_group_data():
                e = set()
                for t in dp.calls('transport::plain_hdr::PlainHdr::is_group_session'):
                    e |= prims.track_result(F, dp, t).failure
                for t in dp.calls('transport::plain_hdr::PlainHdr::is_control_msg'):
                    e |= prims.track_result(F, dp, t).success
                if not e:
                    from facts import GuardMissing
                    raise GuardMissing(f'{dp.fn}: no is_group_session() / is_control_msg() test')
                return e
            R.cut('P2', dp, 'match the packet to an existing session (get_for_rx)', call_bbs(dp, 'transport::session::Sessions::get_for_rx'),
                  'the packet is not a group data message', not_group_data)
            # per-sender tracking: the window consulted is the one of exactly this (fabric, source node) - every use of an existing
            # entry's window is cut by BOTH equality tests (a sender of another fabric with the same node id has its own window)
            from common import equality_tests
            GE = 'transport::dedup::GroupCtrEntry'
            fab_eq, node_eq = set(), set()
            for (bb, neg, sa_, sb_, te, fe) in equality_tests(F, gs):
                fl_ = src_fields(sa_ | sb_)
                if 'fab_idx:' + GE in fl_:
                    fab_eq |= te
                if 'src_nodeid:' + GE in fl_:
                    node_eq |= te
            for t in calls:
                R.cut('P2', gs, 'judge the counter against an existing entry\'s window', [t.bb], 'the entry belongs to this fabric (entry.fab_idx == fab_idx)', fab_eq)
                R.cut('P2', gs, 'judge the counter against an existing entry\'s window', [t.bb], 'the entry belongs to this source node (entry.src_nodeid == src_nodeid)', node_eq)
            # ... and what was learnt about the senders is forgotten only wholesale with the session table itself (new / init / reset):
            # removing one fabric must not re-open the window of every other fabric's senders
            R.writers_confined('P1', 'group_ctr_store:transport::session::Sessions', {'transport::session::Sessions::new', 'transport::session::Sessions::init', 'transport::session::Sessions::reset'})

    # ---- c --------------------------------------------------------------------
    with R.clause('c'):
        pass
        for fld in ('max_ctr', 'ctr_bitmap'):
            R.writers_confined('P1', f'{fld}:{RX}', {RX + '::new', RX + '::post_recv', RX + '::insert'})
        allowed = {SESS + '::*'}     # Session::post_recv, or a private helper of Session it calls (the call site's arguments are checked in clause a)
        if groups:
            allowed.add('transport::dedup::GroupCtrStore::post_recv')
        R.callers_confined('P1', RX + '::post_recv', allowed)
        R.expect('P6', 'transport::dedup::MSG_RX_STATE_BITMAP_LEN', 'the receive window holds 16 counters',
                 F.const_val('transport::dedup::MSG_RX_STATE_BITMAP_LEN') == 16, '16', str(F.const_val('transport::dedup::MSG_RX_STATE_BITMAP_LEN')))
        rp = R.body(RX + '::post_recv')
        def is_len(x):
            return any(y[0] == 'constp' and y[1].endswith('MSG_RX_STATE_BITMAP_LEN') for y in x)

        def is_udiff(x):
            return any(y[0] == 'call' and y[1].endswith(('abs_diff', 'wrapping_sub')) for y in x)
        uses = [(bb, o, d) for (bb, j, o, a, b, d) in prims.compare_sites(rp) if is_len(prims.sources(rp, a) | prims.sources(rp, b))]
        R.floor('comparisons with MSG_RX_STATE_BITMAP_LEN', len(uses), 2)
        inwin = [u for u in uses if u[1] == 'Le']
        R.expect('P6', rp.fn, 'in-window test is `udiff <= LEN`', len(inwin) >= 1, str([(b, o) for b, o, d in uses]), f'window comparisons are {[(b, o) for b, o, d in uses]}')
        adt = F.adt(RX)
        bm = [f for f in adt['variants'][0]['fields'] if f['n'] == 'ctr_bitmap'][0]
        R.expect('P6', RX, 'bitmap type holds exactly 16 bits', bm['ty'] == 'u16', 'u16', bm['ty'])

    # ---- d --------------------------------------------------------------------
    with R.clause('d'):
        pass
        fwd = named_local(rp, 'is_forward')
        te = set()
        for l in fwd:
            te |= prims.bool_local_edges(rp, l)[0]
        # the advancing branch: blocks that write max_ctr
        adv = [(i, j, s) for (i, j, s) in rp.field_writes('max_ctr:' + RX)]
        R.floor('writes of max_ctr in post_recv', len(adv), 2)
        # post_recv(&mut self, msg_ctr, is_encrypted, is_rollover): the third argument (callers pass Session::is_encrypted(), clause a)
        ENC_ARG = 3
        enc_true, enc_false = prims.bool_local_edges(rp, ENC_ARG)
        # "unsecured sessions additionally accept a restart of the peer's counter": a refusal that is not the in-window duplicate verdict
        # (bit already set) is reachable only for an encrypted session
        falses = [bb for bb, k, pl_ in prims.result_defs(rp) if k == 'const' and pl_ == 0]
        R.floor('`false` verdicts of RxCtrState::post_recv', len(falses), 2)
        dupv = set()
        for t in rp.calls(RX + '::contains'):
            dupv |= prims.track_result(F, rp, t).success
        for bb, te_, fe_ in prims.cmp_guard_edges(rp, 'Eq', lambda s_: any(x[0] == 'arg' and x[1] == 2 for x in s_), lambda s_: mentions(s_, 'max_ctr')):
            dupv |= te_      # msg_ctr == self.max_ctr: the newest counter again
        not_dup = [b for b in falses if b in prims.reach(rp, (0,), cut_edges=dupv)]
        R.floor('out-of-window refusal in RxCtrState::post_recv', len(not_dup), 1)
        R.cut('P2', rp, 'refuse a counter that is not an in-window duplicate', not_dup, 'the session is encrypted (an unsecured peer may have restarted its counter)', enc_true)
        const_stores = []
        for (i, j, s) in rp.field_writes('ctr_bitmap:' + RX):
            rv = s[1]
            k = rv['a'][0].get('k') if rv.get('op') == 'use' else None
            if k is not None and 'v' in k:
                const_stores.append((i, j, k['v']))
            elif rv.get('op') == 'use' and op_place(rv['a'][0]) and len(op_place(rv['a'][0])) == 1:
                # `self.ctr_bitmap = if c { f(..) } else { K }`: the constant arm defines the merged temporary in its own block
                for (dbb, di, kind, payload) in rp.defs.get(op_place(rv['a'][0])[0], ()):
                    if kind == 'assign' and payload[1].get('op') == 'use' and 'k' in payload[1]['a'][0] and 'v' in payload[1]['a'][0]['k'] and not rp.is_cleanup(dbb):
                        const_stores.append((dbb, di, payload[1]['a'][0]['k']['v']))
        # udiff > LEN edges: false edges of Le(udiff, LEN) / true edges of Gt(udiff, LEN)
        beyond = set()
        for bb, te_, fe_ in prims.cmp_guard_edges(rp, 'Le', is_udiff, is_len, symmetric=False):
            beyond |= fe_
        for bb, te_, fe_ in prims.cmp_guard_edges(rp, 'Gt', is_udiff, is_len, symmetric=False):
            beyond |= te_
        for bb, te_, fe_ in prims.cmp_guard_edges(rp, 'Lt', is_len, is_udiff, symmetric=False):
            beyond |= te_
        secure = prims.reach(rp, (0,), cut_edges=enc_false)
        for (i, j, v) in const_stores:
            if i not in secure:
                R.ok('P10', rp.fn, f'constant bitmap store ({v:#x}) is on the not-encrypted restart path only', 'cut by the is_encrypted == false edge', rp.where(i, j))
                continue
            if bin(v).count('1') > 1:
                R.fail('P10', rp.fn, 'window bits have a legitimate origin on secure paths',
                       f'on a secure session, advancing the window stores the constant {v:#x} into the bitmap: counters never received are '
                       f'marked as received, so a first-time message overtaken by a jump is rejected as duplicate', rp.where(i, j),
                       key=f'P10|{rp.fn}|constant multi-bit bitmap store on a secure path')
            else:
                ok = bool(beyond) and i not in prims.reach(rp, (0,), cut_edges=beyond)
                R.expect('P10', rp.fn, f'forgetting the window (bitmap = {v:#x}) only when the old maximum falls outside it (udiff > LEN)', ok,
                         'cut by the udiff > MSG_RX_STATE_BITMAP_LEN edge',
                         f'the bitmap is reset to {v:#x} on a path where udiff may equal the window length: the previous maximum is forgotten and a replay of it is accepted',
                         rp.where(i, j))
        if not const_stores:
            R.ok('P10', rp.fn, 'no constant bitmap store on a secure path', 'no constant stores at all')
        # on the forward path the bitmap is rebuilt from the old bitmap and the distance
        fwd_writes = []
        for (i, j, s) in rp.field_writes('ctr_bitmap:' + RX):
            r_fw = set()
            for (f, t) in te:
                r_fw |= prims.reach(rp, (t,))
            if i in r_fw and i not in prims.reach(rp, (0,), cut_edges=te):
                fwd_writes.append((i, s))
        dyn = [(i, s) for (i, s) in fwd_writes if not (s[1].get('op') == 'use' and 'k' in s[1]['a'][0])]
        ok = False
        for (i, s) in dyn:
            srcs = set()
            for a in s[1].get('a', ()):
                srcs |= prims.sources(rp, a)
            if mentions(srcs, 'ctr_bitmap') and any(rp.local_name(x) == 'udiff' for x in _slice_locals(rp, s)):
                ok = True
        R.expect('P10', rp.fn, 'forward path rebuilds the bitmap from the old bitmap and the distance', ok or any(rp.calls(RX + '::insert')),
                 'bitmap <= f(old bitmap, udiff)', 'no forward-path bitmap update derives from the old bitmap and udiff')
        # every forward path that advances max_ctr also updates the bitmap
        fwd_adv = [i for (i, j, s) in adv if i not in prims.reach(rp, (0,), cut_edges=te)]
        R.floor('forward max_ctr write', len(fwd_adv), 1)
        upd = {i for (i, s) in fwd_writes} | {t.bb for t in rp.calls(RX + '::insert')}
        bad = prims.always_followed_by(rp, fwd_adv, upd)
        R.expect('P3', rp.fn, 'advancing max_ctr is always followed by a bitmap update', not bad, 'every path updates the bitmap', f'path from {bad} returns without touching the bitmap')


def _locals_of(prims, body, operand):
    out = set()
    p = op_place(operand)
    if not p:
        return out
    seen = set()
    work = [p[0]]
    while work:
        l = work.pop()
        if l in seen:
            continue
        seen.add(l)
        out.add(l)
        for (bb, i, kind, payload) in body.defs.get(l, ()):
            if kind in ('assign', 'passign'):
                rv = payload[1]
                if rv.get('op') in ('use', 'cast'):
                    q = op_place(rv['a'][0])
                    if q:
                        work.append(q[0])
                elif rv.get('op') == 'ref':
                    work.append(rv['pl'][0])
    return out


def _slice_locals(body, stmt):
    out = set()
    for a in stmt[1].get('a', ()):
        out |= _locals_of(prims, body, a)
    # one more level through binary ops
    more = set()
    for l in list(out):
        for (bb, i, kind, payload) in body.defs.get(l, ()):
            if kind == 'assign':
                for a in payload[1].get('a', ()):
                    more |= _locals_of(prims, body, a)
    return out | more
