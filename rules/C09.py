"""C09 - Reliable messaging delivers each message at most once and reports the truth (error-discipline clauses only)."""
from common import (mentions, closure_in, async_body, closure_arg_sites, ok_return_bbs, call_bbs, named_local, src_calls,
                    src_fields, src_consts, bodies_of, result_used, field_bool_edges)
from facts import AnchorLost, op_place
import prims

EXPLANATION = """
Only four structural clauses of C09 are decided statically; delivery, ordering, truthfulness under every adversary schedule
and back-off timing are not. (a) give-up is reported, never swallowed: RetransEntry::pre_send returns Ok only on the
`counter < MRP_MAX_TRANSMISSIONS` edge (constant = 5, the protocol's budget) and Err(TxTimeout) otherwise; in
ReliableMessage::pre_send the is_err edge of that call can reach no Ok return; every caller up the chain
(ExchangeState::pre_send, Session::pre_send and their users) tests or propagates the result; (b) acknowledgement matching:
in ReliableMessage::post_recv every mutation of `retrans` (field write or `&mut` hand-out, e.g. Option::take) is cut by the
equality of the acknowledged counter with the pending entry's counter; the mismatch edge reaches Err(Duplicate); (c) a received
duplicate that asked for an acknowledgement is acknowledged again: in TransportRunner::handle_rx_packet, from the Duplicate arm
every path that is not (group | reliable transport | standalone ack) passes the with_state(write MRPStandAloneAck) site
followed by netw_send, and the ack counter written is the duplicate's own counter; (d) back-off, structural part: in ExchangeId::wait_tx the
TxOutcome::Retransmit answer is cut by a branch on the select3 result that excludes Either3::Second (some session was removed), and the timer
deadline is now + retrans_delay_ms() - the numeric back-off itself is not decided.
"""
CLAUSES = ['e: a completed handshake\'s session is usable at once (not only after the last handshake message is acknowledged)', 'a: transmit give-up is propagated as TxTimeout', 'b: only a matching acknowledgement clears the retransmission entry', 'c: duplicates are acknowledged again (classified Duplicate before any other refusal)',
           'd: only the ack or the back-off timer ends the wait before a retransmission; back-off arithmetic keeps every bit']
NOT_DECIDED = ['at-most-once and in-order delivery', 'success only if the peer received the message', 'back-off lower bounds / timing', 'success under one good transmission']
MIN_OBLIGATIONS = {'q': 14, 'd': 14, 'r': 14}

RM = 'transport::mrp::ReliableMessage'
RE = 'transport::mrp::RetransEntry'


def check(R):
    F = R.facts
    # ---- a --------------------------------------------------------------------
    with R.clause('a'):
        pass
        R.expect('P6', 'transport::mrp::MRP_MAX_TRANSMISSIONS', 'the retransmission budget is the protocol\'s 5 transmissions', F.const_val('transport::mrp::MRP_MAX_TRANSMISSIONS') == 5, '5',
                 str(F.const_val('transport::mrp::MRP_MAX_TRANSMISSIONS')))
        ps = R.body(RE + '::pre_send')
        oks = ok_return_bbs(ps)
        R.floor('Ok return of RetransEntry::pre_send', len(oks), 1)

        def below_budget():
            e = set()
            for bb, te, fe in prims.cmp_guard_edges(ps, 'Lt', lambda s: mentions(s, 'counter'), lambda s: any(x[0] == 'constp' and x[1].endswith('MRP_MAX_TRANSMISSIONS') for x in s), symmetric=False):
                e |= te
            return e
        R.cut('P2', ps, 'return Ok (transmit again)', oks, 'counter < MRP_MAX_TRANSMISSIONS', below_budget)
        errs = [i for i, j, s in ps.stmts() if s[1].get('op') == 'agg' and s[1].get('adt') == 'error::ErrorCode' and s[1].get('var') == 'TxTimeout']
        R.expect('P2', ps.fn, 'budget exhausted yields ErrorCode::TxTimeout', bool(errs), 'TxTimeout constructed', 'TxTimeout not constructed')
        inc = [i for i, j, s in ps.field_writes('counter:' + RE)]
        R.cut('P2', ps, 'counter += 1', inc, 'counter < MRP_MAX_TRANSMISSIONS', below_budget)
        rp = R.body(RM + '::pre_send')
        t = rp.calls(RE + '::pre_send')
        R.floor('RetransEntry::pre_send in ReliableMessage::pre_send', len(t), 1)
        tr = prims.track_result(F, rp, t[0])
        bad = []
        for (frm, to) in tr.failure:
            r = prims.reach(rp, (to,))
            if set(ok_return_bbs(rp)) & r:
                bad.append(rp.where(frm))
        R.expect('P2', rp.fn, 'after the budget is exhausted no path returns Ok', bool(tr.failure) and not bad, 'the give-up edge only reaches Err',
                 f'a path from the give-up edge at {bad} returns Ok: the caller would see a success that looks like an acknowledgement')
        for fn, callee in (('transport::exchange::ExchangeState::pre_send', RM + '::pre_send'), ('transport::session::Session::pre_send', 'transport::exchange::ExchangeState::pre_send')):
            b = R.body(fn)
            result_used(R, 'P8', b, (callee,))
        n = 0
        for c in F.callers_of('transport::session::Session::pre_send'):
            b = F.bodies[c]
            if b.focus:
                result_used(R, 'P8', b, ('transport::session::Session::pre_send',))
                n += 1
        R.floor('callers of Session::pre_send', n, 1)

    # ---- b --------------------------------------------------------------------
    with R.clause('b'):
        pass
        pr = R.body(RM + '::post_recv')
        fld = 'retrans:' + RM
        muts = sorted({i for i, j, s in pr.field_writes(fld)} | {i for i, j, s in pr.stmts() if s[1].get('op') == 'ref' and s[1].get('mut') and any(x == '.' + fld for x in s[1]['pl'][1:] if isinstance(x, str))})
        R.floor('mutations of ReliableMessage.retrans in post_recv', len(muts), 1)

        def ack_matches():
            e = set()
            for bb, te, fe in prims.cmp_guard_edges(pr, 'Ne', lambda s: RE + '::get_msg_ctr' in src_calls(s), lambda s: any(c.endswith('ProtoHdr::get_ack') for c in src_calls(s)) or True):
                e |= fe
            for bb, te, fe in prims.cmp_guard_edges(pr, 'Eq', lambda s: RE + '::get_msg_ctr' in src_calls(s), lambda s: True):
                e |= te
            return e
        R.cut('P2', pr, 'clear / take the pending retransmission entry', muts, 'acked counter == pending entry counter', ack_matches)
        dup = [i for i, j, s in pr.stmts() if s[1].get('op') == 'agg' and s[1].get('adt') == 'error::ErrorCode' and s[1].get('var') == 'Duplicate']
        R.expect('P2', pr.fn, 'a mismatching acknowledgement is rejected as Duplicate', bool(dup), 'Duplicate constructed', 'no Duplicate on mismatch')
        cmpz = [c for c in prims.compare_sites(pr, ops=('Ne', 'Eq')) if RE + '::get_msg_ctr' in src_calls(prims.sources(pr, c[3]) | prims.sources(pr, c[4]))]
        if cmpz:
            s = prims.sources(pr, cmpz[0][3]) | prims.sources(pr, cmpz[0][4])
            R.expect('P10', pr.fn, 'the acknowledged counter compared is the received header\'s', any(c.endswith('ProtoHdr::get_ack') for c in src_calls(s)) or any(pr.local_name(l) == 'ack_msg_ctr' for l in range(len(pr.locals))), 'rx_proto.get_ack()', f'{sorted(map(str, s))[:5]}')
        R.writers_confined('P1', fld, {RM + '::pre_send', RM + '::post_recv', RM + '::new', '<' + RM + ' as core::default::Default>::default'}, min_sites=2)
        # "at most once": whether a message still has to be re-sent is decided with the TX buffer IN HAND.  Waiting for the (single) TX
        # buffer can take a while; an acknowledgement that arrives meanwhile clears the retransmission entry - a sender that made up its
        # mind before the wait would then build the message anew, with a fresh counter, and the peer's application gets it twice
        for owner, adt in (('transport::exchange::Sender', 'transport::exchange::SenderTx'), ('transport::exchange::OwnedSender', 'transport::exchange::OwnedSenderTx')):
            co = async_body(R, owner + '::tx')
            ini = co.calls('transport::exchange::ExchangeId::init_send')
            R.floor(f'init_send in {owner.split("::")[-1]}::tx', len(ini), 1)
            got = set()
            for t in ini:
                got |= prims.track_result(F, co, t).success
            builds = [i for i, j, st in co.stmts() if st[1].get('op') == 'agg' and st[1].get('adt') == adt]
            R.floor(f'{adt.split("::")[-1]} built in {owner.split("::")[-1]}::tx', len(builds), 1)
            still = set()
            for t in co.calls('transport::exchange::ExchangeId::pending_retrans'):
                still |= prims.track_result(F, co, t, inner=1).success
            te, fe = field_bool_edges(co, 'initial:' + owner)
            for (frm, to) in sorted(got):
                R.cut_from('P2', co, to, 'hand the TX buffer to the message builder (a (re)transmission follows)', builds,
                           'this is the first transmission, or - checked after the buffer was obtained - the retransmission is still pending', still | te)

    # ---- c --------------------------------------------------------------------
    with R.clause('c'):
        pass
        hr = 'transport::TransportRunner::handle_rx_packet'
        co = async_body(R, hr)
        ack = closure_in(R, hr, ['ProtoHdr::set_ack', 'TransportRunner::write_packet'])
        sites = closure_arg_sites(co, ack.fn)
        R.floor('with_state(duplicate ack closure)', len(sites), 1)
        # "every received duplicate is acknowledged again" - whatever became of the exchange it belonged to (the receiving application may
        # have closed it long ago: the first ACK was lost, that is why the duplicate comes).  The re-ACK is sent on the SESSION: the
        # session handed to write_packet is the one get_for_rx found, not the outcome of an exchange lookup, and write_packet is reached
        # on every path through the closure
        wps = ack.calls('transport::TransportRunner::write_packet')
        sess_src = src_calls(prims.sources(ack, wps[0].d['a'][2], through={'core::option::Option::unwrap', 'core::option::Option::Some'}))
        by_exch = sorted(c for c in sess_src if 'exch' in c.split('::')[-1])
        R.expect('P10', ack.fn, 'the duplicate is re-acknowledged on its session, found by session alone (no exchange has to exist any more)',
                 'transport::session::Sessions::get_for_rx' in sess_src and not by_exch, 'session <= Sessions::get_for_rx',
                 f'the session for the re-ACK comes from {by_exch or sorted(sess_src)[:4]}: once the application has closed the exchange the duplicate is no longer acknowledged and the '
                 'sender retransmits into silence until TxTimeout', ack.where(wps[0].bb))
        skip = prims.precedes(ack, [t.bb for t in wps], ok_return_bbs(ack) or ack.ret_blocks())
        R.expect('P3', ack.fn, 'the re-acknowledgement is written on every path through the closure', not skip, 'write_packet precedes every Ok return',
                 f'an Ok return at {[ack.where(x) for x in skip][:2]} is reachable without write_packet: that duplicate is dropped silently')
        sa = ack.calls('transport::proto_hdr::ProtoHdr::set_ack')[0]
        s = prims.sources(ack, sa.d['a'][1])
        R.expect('P10', ack.fn, 'the re-acknowledgement carries the duplicate\'s own counter', mentions(s, 'ctr') and mentions(s, 'plain'), 'set_ack(Some(packet.header.plain.ctr))', f'{sorted(map(str, s))[:6]}', ack.where(sa.bb))
        R.expect('P3', ack.fn, 'set_ack precedes write_packet', not prims.precedes(ack, [sa.bb], call_bbs(ack, 'transport::TransportRunner::write_packet')), 'ok', 'write_packet reachable before set_ack')
        wp = ack.calls('transport::TransportRunner::write_packet')[0]
        wclo = [c for (i, j, st, c) in ack.closures_built()]
        okop = any(('agg', 'sc::OpCode', 'MRPStandAloneAck') in _closure_aggs(F, c) for c in wclo)
        R.expect('P10', ack.fn, 'the packet written is an MRP standalone acknowledgement', okop, 'OpCode::MRPStandAloneAck', 'opcode is not MRPStandAloneAck')
        sends = [t.bb for t in co.calls('transport::TransportRunner::netw_send')]
        bad = prims.always_followed_by(co, [e[1] for e in _succ(R, co, sites)], sends)
        R.expect('P3', co.fn, 'a written duplicate-ack is always sent', not bad, 'with_state(ack) ok -> netw_send', 'a path skips netw_send after writing the ack')
        # from the Duplicate arm
        code_t = [t for t in co.calls('error::Error::code')]
        R.floor('e.code() tests in handle_rx_packet', len(code_t), 1)
        dup_edges = set()
        for t in code_t:
            tr = prims.track_result(F, co, t, success_variants=['Duplicate'])
            dup_edges |= tr.success
        if not dup_edges:
            dup_edges, _ = prims.enum_local_edges(F, co, lambda pl: True, 'error::ErrorCode', ['Duplicate'])
        excl = set()
        for nm in ('transport::plain_hdr::PlainHdr::is_group_session', 'transport::network::Address::is_reliable', 'transport::exchange::MessageMeta::is_standalone_ack'):
            for t in co.calls(nm):
                excl |= prims.track_result(F, co, t).success
        sb = {s_.bb for s_ in sites}
        bad = []
        for (frm, to) in dup_edges:
            r = prims.reach(co, (to,), cut_edges=excl, cut_blocks=sb)
            if set(co.ret_blocks()) & r:
                bad.append(co.where(frm))
        R.expect('P3', co.fn, 'every duplicate that wants an acknowledgement (not group, not reliable transport, not a standalone ack) is acknowledged again',
                 bool(dup_edges) and bool(excl) and not bad, 'Duplicate arm -> with_state(write ack) on every remaining path',
                 f'from the Duplicate arm at {bad} the function can return without re-acknowledging (dup_edges={sorted(dup_edges)})')

        # ... which presupposes that a duplicate IS classified Duplicate: in Session::post_recv the window test comes first - the other
        # refusals (NoExchange for a closed exchange, NoSession for an expired session) are reachable only on its `new message` edge
        sp = R.body('transport::session::Session::post_recv')
        other = sorted({i for i, j, st in sp.stmts() if st[1].get('op') == 'agg' and st[1].get('adt') == 'error::ErrorCode' and st[1].get('var') in ('NoExchange', 'NoSession') and not sp.is_cleanup(i)})
        R.floor('NoExchange / NoSession refusals in Session::post_recv', len(other), 1)
        R.cut('P2', sp, 'refuse the message as NoExchange / NoSession', other, 'the counter window accepted it as new (a duplicate is answered Duplicate -> re-acknowledged, whatever became of its exchange)',
              lambda: R.call_guard(sp, 'transport::dedup::RxCtrState::post_recv'))

    # ---- e --------------------------------------------------------------------
    with R.clause('e'):
        # "the call succeeds if one transmission and one acknowledgement get through": the peer starts using a new secure session as soon as
        # it has the final handshake message, while this side still holds the ReservedSession until THAT message is acknowledged.  The
        # session must therefore be taken out of the reserved state by ReservedSession::complete() itself (as every caller's comment says),
        # not only when the guard is dropped - or every secure message that arrives meanwhile is answered SessionNotFound, however often it
        # is retransmitted
        RSV = 'transport::session::ReservedSession'
        cb = [R.body(RSV + '::complete')] + list(F.nested(RSV + '::complete'))
        unres = [(b_, i) for b_ in cb for i, j, st in b_.field_writes('reserved:transport::session::Session')
                 if st[1].get('op') == 'use' and st[1]['a'][0].get('k', {}).get('v') == 0]
        R.expect('P3', RSV + '::complete', 'ReservedSession::complete() makes the session available at once (reserved <- false)', bool(unres),
                 f'{len(unres)} write(s) of Session.reserved = false under complete()',
                 'complete() only sets a flag; Session.reserved is cleared when the guard is dropped - after the final handshake message was acknowledged: until then every message on the '
                 'new session is refused (SessionNotFound)', f'{cb[0].file}:{cb[0].line}')

    # ---- d --------------------------------------------------------------------
    with R.clause('d'):
        # "retransmissions are never sent earlier than the protocol's back-off": ExchangeId::wait_tx waits on (ack, any-session-removed,
        # back-off timer); only the ack and the timer may end the wait. Waking up because SOME session was removed must not lead to
        # TxOutcome::Retransmit: every path to it passes a branch on the select3 result that excludes Either3::Second.
        wt = async_body(R, 'transport::exchange::ExchangeId::wait_tx')
        E3 = 'embassy_futures::select::Either3'
        sel = wt.calls('embassy_futures::select::select3')
        R.floor('select3(ack, session_removed, timer) in wait_tx', len(sel), 1)
        tim = [t for t in wt.calls() if t.d.get('f', '').endswith('Timer::at') or t.d.get('f', '').endswith('Timer::after')]
        R.floor('back-off timer in wait_tx', len(tim), 1)
        s_ = prims.sources(wt, tim[0].d['a'][0], through={'embassy_time::instant::Instant::checked_add', 'embassy_time::duration::Duration::from_millis', 'fmt::Try::into_result', '<core::option::Option<T> as fmt::Try>::into_result'})
        R.expect('P10', wt.fn, 'the timer deadline derives from the retransmission entry\'s back-off delay', any(c.endswith('retrans_delay_ms') for c in src_calls(s_)) and any(c.endswith('Instant::now') for c in src_calls(s_)),
                 'now + retrans_delay_ms()', f'{sorted(src_calls(s_))[:6]}')
        retr = [i for i, j, st in wt.stmts() if st[1].get('op') == 'agg' and st[1].get('adt') == 'transport::exchange::TxOutcome' and st[1].get('var') == 'Retransmit' and not wt.is_cleanup(i)]
        R.floor('TxOutcome::Retransmit in wait_tx', len(retr), 1)

        def not_second():
            second, other = prims.enum_local_edges(F, wt, lambda pl: wt.local_ty(pl[0]).startswith(E3), E3, ['Second'])
            if not second and not other:
                from facts import GuardMissing
                raise GuardMissing(f'{wt.fn}: the result of select3 is not inspected')
            return other
        R.cut('P2', wt, 'answer Retransmit', retr, 'the wait ended by the ack notification or by the back-off timer, not by the removal of some session (select3 result is not Either3::Second)', not_second)

        # ... and the back-off is computed from the peer's interval at full width: no integer cast in the retransmission entry loses bits
        # (an interval of 65 836 ms truncated to 16 bits becomes 300 ms)
        import p7
        reb = [b for b in F.bodies.values() if b.focus and b.fn.startswith(RE + '::') and '::tests::' not in b.fn]
        R.floor('RetransEntry bodies', len(reb), 5)
        nc = 0
        for b in sorted(reb, key=lambda b: b.fn):
            for i, j_, st in b.stmts():
                rv = st[1]
                if rv.get('op') != 'cast' or rv.get('ck') != 'IntToInt' or b.is_cleanup(i):
                    continue
                dt = b.local_ty(st[0][0]) if len(st[0]) == 1 else None
                if dt is None and len(st[0]) > 1:
                    # a cast stored straight into a struct field: the field's declared width
                    fld = [x for x in st[0][1:] if isinstance(x, str) and x.startswith('.')]
                    adt = F.adt(fld[-1].split(':', 1)[1]) if fld and ':' in fld[-1] else None
                    if adt:
                        dt = next((f['ty'] for v in adt['variants'] for f in v['fields'] if f['n'] == fld[-1][1:].split(':')[0]), None)
                if dt not in p7.INT_BITS:
                    continue
                nc += 1
                need = p7.max_bits(b, rv['a'][0]) or p7._ty_bits(b, rv['a'][0]) or 128
                R.expect('P6', b.fn, f'integer cast ({p7.expr_key(b, rv["a"][0])} as {dt}) keeps every bit', need <= p7.INT_BITS[dt], f'{need} bits into {dt}',
                         f'{p7.expr_key(b, rv["a"][0])} ({need} bits) is truncated to {dt}: the back-off no longer is the protocol\'s', b.where(i, j_))
        R.floor('integer casts in the back-off computation', nc, 2)
        flds = {f['n']: f['ty'] for f in F.adt(RE)['variants'][0]['fields']}
        R.expect('P6', RE, 'the back-off base interval is stored at least at the width it is negotiated in (32-bit milliseconds)', p7.INT_BITS.get(flds.get('base_delay_interval_ms'), 0) >= 32, f'{flds.get("base_delay_interval_ms")}', f'{flds.get("base_delay_interval_ms")}: narrower than the 32-bit session parameter')


def _succ(R, body, sites):
    e = set()
    for t in sites:
        e |= prims.track_result(R.facts, body, t).success
    return e


def _closure_aggs(F, cfn):
    b = F.bodies.get(cfn)
    out = set()
    if b and b.focus:
        for i, j, s in b.stmts():
            if s[1].get('op') == 'agg' and 'adt' in s[1]:
                out.add(('agg', s[1]['adt'], s[1].get('var')))
    return out
