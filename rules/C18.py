"""C18 - BTP fails cleanly on protocol violations (structural clauses; delivery / ordering / timing not decided)."""
from common import (mentions, closure_in, ok_return_bbs, call_bbs, named_local, src_calls, src_fields, src_consts, bodies_of, result_used)
from facts import AnchorLost, op_place
import prims
import p7
from C16 import surface

EXPLANATION = """
Static rules over transport/network/btp/session.rs (+ packet.rs, utils/storage/ringbuf.rs):
(a) integrity precedes mutation: in RecvWindow::accept_incoming every write to the window state and every push into the reassembly
buffer is unreachable once the success edge of check_data_integrity is deleted, and unreachable while the window level is 0
(overrun); SendWindow::accept_incoming returns an error - and writes nothing - for an acknowledgement of something never sent
(unacknowledged > window_size); in Session::process_rx_data the acknowledgement is validated before any receive state is touched and
both results are propagated; the expected sequence number is ack_seq.wrapping_add(1);
(b) hostile segments cannot crash the node: every panic-capable MIR site in the BTP session, header parser and ring buffer is
discharged (dominating comparison, width bound, constant, audited invariant - see C16 for the scheme); on the pinned tree the sites
`window_size - unacknowledged` and `level -= 1` were not dischargeable (fixed by 899af41);
(c) we never overrun the peer's window: on the data path SendWindow::post_send is cut by the false edge of is_full; the handshake
request path does not call post_send; SendWindow::post_send has exactly those callers;
(d) acknowledgement bookkeeping: RecvWindow::post_send re-gains the window and clears ack_level only over the is_some() edge of
pending_ack(), the predicate that also feeds BtpHdr::set_ack in prep_tx_data; in (a) each RingBuf::push (which drops the oldest bytes
when over-full) is cut by its own free() test - >= 2 for the length prefix, >= payload.len() for the payload - with no other push
between the test and the push.
"""
CLAUSES = ['a: integrity checks precede every mutation of the windows; a new SDU starts only after the previous is complete; the single-segment test agrees with the sender; the ACK deadline runs from the first unacknowledged segment; the last send slot is reserved by pending_ack(); directed wrapping ACK distance', 'b: receive-path panic surface discharged', 'c: sending is gated by the peer window; the advertised window covers at most half of the buffer', 'd: the receive window is re-gained only when an ACK was sent; every ring-buffer push has a fresh free-space test']
NOT_DECIDED = ['exactly-once, in-order delivery between well-behaved ends', 'acknowledgement deadline timing', 'reassembly equality']
MIN_OBLIGATIONS = {'q': 30, 'd': 30, 'r': 30}

S = 'transport::network::btp::session::'


def _muts(body, adts):
    out = set()
    for i, j, s in body.stmts():
        pl, rv = s[0], s[1]
        if any(isinstance(x, str) and x.startswith('.') and x.split(':', 1)[1].startswith(adts) for x in pl[1:]):
            out.add(i)
        if rv.get('op') == 'ref' and rv.get('mut') and any(isinstance(x, str) and x.startswith('.') and x.split(':', 1)[1].startswith(adts) for x in rv['pl'][1:]):
            out.add(i)
    return sorted(out)


def check(R):
    F = R.facts
    # ---- a --------------------------------------------------------------------
    with R.clause('a'):
        ra = R.body(S + 'RecvWindow::accept_incoming')
        muts = _muts(ra, (S + 'RecvWindow',))
        R.floor('state mutations in RecvWindow::accept_incoming', len(muts), 4)
        R.cut('P2', ra, 'mutate the receive window / push into the reassembly buffer', muts, 'check_data_integrity ok', lambda: R.call_guard(ra, S + 'RecvWindow::check_data_integrity'))

        def level_nonzero():
            e = set()
            for bb, te, fe in prims.cmp_guard_edges(ra, 'Eq', lambda s: mentions(s, 'level') and not mentions(s, 'ack_level'), lambda s: 0 in src_consts(s)):
                e |= fe
            for bb, te, fe in prims.cmp_guard_edges(ra, 'Gt', lambda s: mentions(s, 'level') and not mentions(s, 'ack_level'), lambda s: 0 in src_consts(s), symmetric=False):
                e |= te
            return e
        R.cut('P2', ra, 'mutate the receive window / push into the reassembly buffer', muts, 'the receive window is not exhausted (level > 0)', level_nonzero)
        # RingBuf::push silently drops the OLDEST bytes when over-full: every push needs its own, fresh free() test
        pushes = ra.calls('utils::storage::ringbuf::RingBuf::push')
        R.floor('RingBuf::push sites in RecvWindow::accept_incoming', len(pushes), 2)
        is_free = lambda s_: any(c.endswith('RingBuf::free') for c in src_calls(s_))
        guards = {}
        for t in pushes:
            src = prims.sources(ra, t.d['a'][1])
            if any(c.endswith('::to_le_bytes') for c in src_calls(src)):
                # the 2-byte SDU length prefix; `size_of::<T>()` counts as >= 2 when every size_of in the function is of a type of at least two bytes
                so = [c.d.get('fa', '') for c in ra.calls('core::mem::size_of')]
                wide = bool(so) and all(x.endswith(('::<u16>', '::<u32>', '::<u64>', '::<usize>', '::<i16>', '::<i32>', '::<i64>')) for x in so)

                def edges():
                    e = set()
                    for op, keep_true, ok in (('Ge', True, lambda c: c >= 2), ('Gt', True, lambda c: c >= 1), ('Lt', False, lambda c: c >= 2), ('Le', False, lambda c: c >= 1)):
                        for bb, te, fe in prims.cmp_guard_edges(ra, op, is_free, lambda s_: any(isinstance(v, int) and ok(v) for v in src_consts(s_)) or (wide and 'core::mem::size_of' in src_calls(s_)), symmetric=False):
                            e |= te if keep_true else fe
                    return e
                what, gd = 'push the 2-byte SDU length prefix into the ring buffer', 'the prefix fits (buf.free() >= 2)'
            else:
                def edges():
                    return _lt_false(ra, is_free, lambda s_: any(c.endswith('::len') for c in src_calls(s_)))
                what, gd = 'push the payload into the ring buffer', 'the payload fits (buf.free() >= payload.len())'
            try:
                guards[t.bb] = edges()
            except Exception:
                guards[t.bb] = set()
            R.cut('P2', ra, what, [t.bb], gd, guards[t.bb])
        for t in pushes:
            stale = []
            for q in pushes:
                if q.bb == t.bb or not guards.get(t.bb):
                    continue
                after_guard = prims.reach(ra, tuple({e[1] for e in guards[t.bb]}), cut_blocks={t.bb})
                if q.bb in after_guard and t.bb in prims.reach(ra, tuple(ra.succ[q.bb])):
                    stale.append(ra.where(q.bb))
            R.expect('P3', ra.fn, f'the free-space test for the push at line {t.line} is not followed by another push before it', not stale, 'fresh', f'another push at {stale} lies between the free() test and this push: the test is stale', ra.where(t.bb))
        # "inconsistent length or flags are refused": a BEGINNING segment starts a new SDU only when the previous one is complete - the
        # write rem_msg_len <- (the header's message length) is cut by rem_msg_len == 0.  (Otherwise a second length prefix lands in the
        # middle of the first SDU's bytes and the two are handed up as one message.)
        RML = 'rem_msg_len:' + S + 'RecvWindow'
        starts = [i for i, j, st in ra.field_writes(RML) if st[1].get('op') == 'use' and not mentions(prims.sources(ra, st[1]['a'][0]), 'rem_msg_len')
                  and any(c.endswith('BtpHdr::get_msg_len') for c in src_calls(prims.sources(ra, st[1]['a'][0])))]
        R.floor('start of a new SDU (rem_msg_len <- hdr.get_msg_len()) in RecvWindow::accept_incoming', len(starts), 1)

        def prev_complete():
            e = set()
            isr = lambda s_: mentions(s_, 'rem_msg_len')    # (tests that come after the write cannot cut the way to it)
            zero = lambda s_: 0 in src_consts(s_)
            for bb, te, fe in prims.cmp_guard_edges(ra, 'Eq', isr, zero):
                e |= te
            for bb, te, fe in prims.cmp_guard_edges(ra, 'Ne', isr, zero):
                e |= fe
            for bb, te, fe in prims.cmp_guard_edges(ra, 'Gt', isr, zero, symmetric=False):
                e |= fe
            if not e:
                from facts import GuardMissing
                raise GuardMissing(f'{ra.fn}: no test of rem_msg_len against 0')
            return e
        R.cut('P2', ra, 'start a new SDU (rem_msg_len <- the header\'s message length, push a new length prefix)', starts, 'the previous SDU is complete (rem_msg_len == 0)', prev_complete)
        # "for every message length, every negotiated segment size": the receiver's "an SDU that fits in one segment must be final" test
        # has to agree with how the sender segments - a segment carries mtu MINUS its header, so the test either accounts for the header
        # length or compares with what this segment actually carries; comparing the bare SDU length with the mtu refuses the sender's own
        # two-segment messages of mtu - header < length <= mtu
        fits = []
        for c in prims.compare_sites(ra, ops=('Le', 'Lt', 'Ge', 'Gt')):
            sa_, sb_ = prims.sources(ra, c[3]), prims.sources(ra, c[4])
            msg = lambda s_: any(x.endswith('BtpHdr::get_msg_len') for x in src_calls(s_)) and not mentions(s_, 'rem_msg_len')
            cap = lambda s_: ('arg', 4) in s_ or any(x.endswith(('::len',)) for x in src_calls(s_))
            if (msg(sa_) and cap(sb_)) or (msg(sb_) and cap(sa_)):
                fits.append((c, sa_ | sb_))
        R.floor('"fits in a single segment" comparison in RecvWindow::accept_incoming', len(fits), 1)
        for c, ss in fits:
            R.expect('P5', ra.fn, 'the single-segment test accounts for the segment header (as the sender\'s segmentation does)',
                     any(x.endswith(('BtpHdr::len', 'slice::<impl [T]>::len')) for x in src_calls(ss)), 'msg_len + hdr.len() <= mtu (or msg_len <= payload.len())',
                     'the SDU length is compared with the bare mtu: an SDU of mtu - header < length <= mtu, which the sender legitimately splits in two segments, is refused', ra.where(c[0]))
        # "an acknowledgement sent before the acknowledgement deadline": the deadline runs from the OLDEST segment that is still
        # unacknowledged - received_at is stamped when ack_level goes from 0 to 1 and not moved by the segments that follow (or each
        # arrival pushes the deadline of the earlier ones out by a full time-out)
        stamps = [i for i, j, st in ra.field_writes('received_at:' + S + 'RecvWindow')]
        R.floor('writes of RecvWindow.received_at in accept_incoming', len(stamps), 1)

        def first_unacked():
            e = set()
            isl = lambda s_: mentions(s_, 'ack_level')
            zero = lambda s_: 0 in src_consts(s_)
            for bb, te, fe in prims.cmp_guard_edges(ra, 'Eq', isl, zero):
                e |= te
            for bb, te, fe in prims.cmp_guard_edges(ra, 'Ne', isl, zero):
                e |= fe
            for bb, te, fe in prims.cmp_guard_edges(ra, 'Gt', isl, zero, symmetric=False):
                e |= fe
            if not e:
                from facts import GuardMissing
                raise GuardMissing(f'{ra.fn}: received_at is stamped without a test of ack_level against 0')
            return e
        R.cut('P2', ra, 'restart the acknowledgement deadline (received_at <- now)', stamps, 'no earlier segment is still unacknowledged (ack_level == 0)', first_unacked)
        # the last free slot of the send window is kept for a segment that can carry an acknowledgement - judged by the same
        # RecvWindow::pending_ack() that decides whether the segment WILL carry one (pending_ack is None while a complete SDU waits to be
        # fetched; testing the raw ack_level there lets both ends spend their last slot on ACK-less segments and dead-lock)
        isf = R.body(S + 'SendWindow::is_full')
        raw = prims.field_read_locals(isf, 'ack_level:' + S + 'RecvWindow')
        R.expect('P5', isf.fn, 'the last send-window slot is reserved by the same test that attaches the acknowledgement (RecvWindow::pending_ack)',
                 S + 'RecvWindow::pending_ack' in isf.calls_summary and not raw, 'level == 1 && recv_window.pending_ack().is_none()',
                 ('is_full reads RecvWindow.ack_level directly' if raw else 'is_full does not consult RecvWindow::pending_ack') + ': with a complete SDU waiting to be fetched pending_ack() is None, the segment '
                 'sent in the last slot carries no ACK, and two ends that both do so can never acknowledge each other again')
        # the counters of the receive window are bounded by the invariant level + ack_level == window_size (that is what the audited
        # `ack_level += 1` / `buf_messages_ct += 1` sites rest on).  A handshake re-arms `level` to the full window: it has to start from reset
        # windows, or a peer that simply repeats the handshake re-gains the window each time while ack_level / buf_messages_ct keep
        # growing - past 255, a panic with overflow checks, a silent wrap without
        su = R.body(S + 'Session::setup')
        rearm = sorted({i for i, j, st in su.field_writes('level:' + S + 'RecvWindow')} | {i for i, j, st in su.field_writes('level:' + S + 'SendWindow')})
        R.floor('re-arming of the window levels in Session::setup', len(rearm), 1)
        for w_, what in ((S + 'RecvWindow::reset', 'receive'), (S + 'SendWindow::reset', 'send')):
            rs_ = [t.bb for t in su.calls(w_)]
            miss = prims.precedes(su, rs_, rearm) if rs_ else rearm
            R.expect('P3', su.fn, f'a handshake re-arms the {what} window only after resetting it', not miss, f'{w_.split("::")[-2]}::reset precedes the re-arming',
                     f'Session::setup sets the window level to the full window without resetting the {what} window: repeating the handshake accumulates unacknowledged segments / unfetched messages '
                     'beyond the range of their u8 counters', su.where(rearm[0]))
        ci = R.body(S + 'RecvWindow::check_data_integrity')
        seq = [t for t in ci.calls('core::num::<impl u8>::wrapping_add')] + [t for b in F.nested(ci.fn) for t in b.calls('core::num::<impl u8>::wrapping_add')]
        okseq = False
        for b in [ci] + F.nested(ci.fn):
            for t in b.calls('core::num::<impl u8>::wrapping_add'):
                if mentions(prims.sources(b, t.d['a'][0]), 'ack_seq') and t.d['a'][1].get('k', {}).get('v') == 1:
                    okseq = True
        R.expect('P10', ci.fn, 'the expected sequence number is the last accepted one plus one (wrapping)', okseq, 'ack_seq.wrapping_add(1)', 'sequence test changed')
        oks = ok_return_bbs(ci)
        R.floor('Ok return of check_data_integrity', len(oks), 1)
        nerr = len([1 for i, j, s in ci.stmts() if s[1].get('op') == 'agg' and s[1].get('adt') == 'error::ErrorCode' and s[1].get('var') == 'InvalidData'])
        R.expect('P5', ci.fn, 'the integrity check keeps its refusal arms (handshake, opcode, ack payload, flags, size, sequence)', nerr >= 7, f'{nerr} InvalidData arms', f'only {nerr} InvalidData arms (7 on the pinned tree)')
        sa = R.body(S + 'SendWindow::accept_incoming')
        muts = _muts(sa, (S + 'SendWindow',))
        R.floor('state mutations in SendWindow::accept_incoming', len(muts), 2)
        R.expect('P2', sa.fn, 'SendWindow::accept_incoming can refuse a segment', sa.rec.get('ret', '').startswith('core::result::Result'), 'returns Result', f"returns {sa.rec.get('ret')}: an acknowledgement of something never sent cannot be refused")

        def never_sent_cut():
            e = set()
            bound = lambda s: mentions(s, 'window_size')
            for op_, take in (('Gt', 'f'), ('Ge', 'f'), ('Le', 't'), ('Lt', 't')):
                for bb, te, fe in prims.cmp_guard_edges(sa, op_, lambda s: True, bound, symmetric=False):
                    e |= te if take == 't' else fe
            return e
        lvl = [i for i, j, s in sa.field_writes('level:' + S + 'SendWindow') if not (s[1].get('op') == 'use' and mentions(prims.sources(sa, s[1]['a'][0]), 'window_size') and not any(x.get('op') == 'bin' for x in [s[1]]))]
        subw = [i for i, j, s in sa.stmts() if s[1].get('op') == 'bin' and s[1].get('b') in ('Sub', 'SubWithOverflow') and mentions(prims.sources(sa, s[1]['a'][0]), 'window_size')
                and not any(f == 'level:' + S + 'SendWindow' for f in src_fields(prims.sources(sa, s[1]['a'][1])))]    # (window_size - level is the bound itself)
        R.floor('window_size - unacknowledged in SendWindow::accept_incoming', len(subw), 1)
        R.cut('P2', sa, 'compute window_size - unacknowledged', subw, 'unacknowledged <= window_size', never_sent_cut)
        # "acknowledgement of something never sent": the acknowledged segment has to be one of those still unacknowledged - there are
        # window_size - level of them, not window_size: the bound of the refusal involves the current level (right after the handshake,
        # with one segment outstanding, an ACK for sequence number 253 was accepted)
        bounds = []
        for c in prims.compare_sites(sa, ops=('Gt', 'Ge', 'Le', 'Lt')):
            for o in (c[3], c[4]):
                so = prims.sources(sa, o)
                if mentions(so, 'window_size'):
                    bounds.append(so)
        R.floor('comparison against the window in SendWindow::accept_incoming', len(bounds), 1)
        R.expect('P10', sa.fn, 'an acknowledgement is refused unless it is for one of the window_size - level segments still unacknowledged',
                 any(any(f == 'level:' + S + 'SendWindow' for f in src_fields(b_)) for b_ in bounds), 'unacknowledged is compared with window_size - level',
                 'unacknowledged is compared with the whole window_size: an ACK for a sequence number that was never sent (or was acknowledged long ago) passes as long as it lies within one window')
        # the number of unacknowledged segments is the DIRECTED distance last_sent - ack modulo 256 (a wrapping subtraction, in that order):
        # a symmetric distance refuses a valid acknowledgement across the 255 -> 0 wrap and accepts one for a segment that was never sent
        wsub = [t for t in sa.calls() if any(n in ('<core::num::wrapping::Wrapping<u8> as core::ops::arith::Sub>::sub', 'core::num::<impl u8>::wrapping_sub') for n in t.callee_names())]
        ok_dir = False
        for t in wsub:
            a0 = prims.sources(sa, t.d['a'][0], through={'core::num::wrapping::Wrapping'})
            a1 = prims.sources(sa, t.d['a'][1], through={'core::num::wrapping::Wrapping'})
            if mentions(a0, 'last_sent_seq_num') and any(c.endswith('BtpHdr::get_ack') for c in src_calls(a1)) and not mentions(a1, 'last_sent_seq_num'):
                ok_dir = True
        other = sorted({n.split('::')[-1] for t in sa.calls() for n in t.callee_names() if n.endswith(('::abs_diff', '::max', '::min', '::checked_sub', '::saturating_sub'))})
        R.expect('P10', sa.fn, 'unacknowledged = last_sent_seq_num - ack, wrapping (a directed distance modulo 256)', ok_dir and not other,
                 'Wrapping(last_sent_seq_num) - Wrapping(ack)', f'{len(wsub)} wrapping subtraction(s) with the operands (last sent, acknowledged); other distance operators: {other}')
        pd = R.body(S + 'Session::process_rx_data')
        result_used(R, 'P8', pd, (S + 'SendWindow::accept_incoming',))
        result_used(R, 'P8', pd, (S + 'RecvWindow::accept_incoming',))
        R.cut('P2', pd, 'RecvWindow::accept_incoming', call_bbs(pd, S + 'RecvWindow::accept_incoming'), 'the acknowledgement was valid (SendWindow::accept_incoming ok)',
              lambda: R.call_guard(pd, S + 'SendWindow::accept_incoming'))
        R.cut('P2', pd, 'touch the windows', call_bbs(pd, S + 'RecvWindow::accept_incoming', S + 'SendWindow::accept_incoming'), 'the segment header parsed',
              lambda: R.call_guard(pd, S + 'packet::BtpHdr::from'))

    # ---- d --------------------------------------------------------------------
    with R.clause('d'):
        # acknowledgement bookkeeping: the receive window is re-gained (level += ack_level; ack_level = 0) only when the segment just sent
        # carried the acknowledgement, i.e. under the same predicate (pending_ack) that puts the ACK into the outgoing header
        ps = R.body(S + 'RecvWindow::post_send')
        muts = _muts(ps, (S + 'RecvWindow',))
        R.floor('state mutations in RecvWindow::post_send', len(muts), 1)
        R.cut('P2', ps, 're-gain the receive window / clear ack_level', muts, 'an acknowledgement was pending (pending_ack().is_some())', lambda: R.call_guard(ps, S + 'RecvWindow::pending_ack'))
        pt = R.body(S + 'Session::prep_tx_data')
        R.floor('RecvWindow::post_send in prep_tx_data', len(pt.calls(S + 'RecvWindow::post_send')), 1)
        acks = [t for t in pt.calls() if t.d.get('f', '').endswith('BtpHdr::set_ack')]
        R.floor('BtpHdr::set_ack in prep_tx_data', len(acks), 1)
        R.expect('P10', pt.fn, 'the acknowledgement put into the outgoing header is RecvWindow::pending_ack()', all(S + 'RecvWindow::pending_ack' in src_calls(prims.sources(pt, t.d['a'][1])) for t in acks),
                 'set_ack(pending_ack())', 'the header ACK no longer derives from pending_ack(): header and window bookkeeping can disagree')

        # the window we advertise leaves room for one complete, not yet fetched message next to a full window of segments (ACKs are
        # withheld while such a message sits in the buffer): window(segment) = MAX_MESSAGE_SIZE / segment / k with k >= 2, capped at 255
        iw = R.body(S + 'Session::initial_window_size')
        rd_ = [(bb, k, pl_) for bb, k, pl_ in prims.result_defs(iw)]
        key = None
        for i, j, st in iw.stmts():
            if st[0] == [0] or (len(st[0]) == 1 and st[1].get('op') == 'cast'):
                key = p7.expr_key(iw, st[1]['a'][0]) if st[1].get('a') else key
        import re as _re

        def _divs(e):
            # peel `Div(a,b)` layers: returns (innermost dividend, [divisors])
            ds = []
            while e.startswith('Div(') and e.endswith(')'):
                inner, depth, cut = e[4:-1], 0, None
                for ix, ch in enumerate(inner):
                    depth += ch == '('
                    depth -= ch == ')'
                    if ch == ',' and depth == 0:
                        cut = ix
                if cut is None:
                    break
                ds.append(inner[cut + 1:])
                e = inner[:cut]
            return e, ds
        mm = _re.fullmatch(r'min\((.*),(\d+)\)', key or '')
        base, ds = _divs(mm.group(1)) if mm else ('', [])
        kconst = 1
        for d_ in ds:
            if d_.isdigit():
                kconst *= int(d_)
        nvar = [d_ for d_ in ds if not d_.isdigit()]
        if not mm or not (base.isdigit() or base == 'MAX_MESSAGE_SIZE') or len(nvar) != 1:
            raise AnchorLost(f'initial_window_size: expression {key!r} is not of the form min(MAX_MESSAGE_SIZE / segment [/ k], cap)')
        R.expect('P6', iw.fn, 'the advertised window covers at most half of the reassembly buffer', kconst >= 2 and int(mm.group(2)) <= 255,
                 f'{key}', f'{key}: a full window of segments plus one unfetched message no longer fits the ring buffer - a peer that respects the window has a legitimate segment refused')

    # ---- b --------------------------------------------------------------------
    with R.clause('b'):
        bodies = surface(F, 'C18')
        R.floor('BTP bodies', len(bodies), 100)
        total, nb, used = p7.analyse(R, 'P7', bodies, p7.load_audited(), 'C18')
        R.floor('panic-capable sites examined', total, 60)
        R.note(f'{total} panic-capable sites in {nb} of {len(bodies)} BTP bodies; {len(used)} discharged by audited invariants')

    # ---- c --------------------------------------------------------------------
    with R.clause('c'):
        pt = R.body(S + 'Session::prep_tx_data')
        R.cut('P2', pt, 'SendWindow::post_send (consume one unit of the peer window)', call_bbs(pt, S + 'SendWindow::post_send'), 'the send window is not full',
              lambda: _fail(R, pt, S + 'SendWindow::is_full'))
        R.cut('P2', pt, 'take the next sequence number', call_bbs(pt, S + 'SendWindow::next_seq_num'), 'the send window is not full', lambda: _fail(R, pt, S + 'SendWindow::is_full'))
        R.callers_confined('P1', S + 'SendWindow::post_send', {S + 'Session::prep_tx_data', S + 'Session::prep_tx_handshake_resp'})
        hq = R.body(S + 'Session::prep_tx_handshake_req')
        R.expect('P1', hq.fn, 'the handshake request does not consume the (not yet negotiated) send window', S + 'SendWindow::post_send' not in hq.calls_summary, 'no post_send', 'post_send called')
        isf = R.body(S + 'SendWindow::is_full')
        ok, why = prims.field_influences_result(isf, 'level:' + S + 'SendWindow')
        R.expect('P9', isf.fn, 'is_full depends on the remaining window level', ok, why, why)
        zero = [c for c in prims.compare_sites(isf, ops=('Eq',)) if 0 in src_consts(prims.sources(isf, c[3]) | prims.sources(isf, c[4])) and mentions(prims.sources(isf, c[3]) | prims.sources(isf, c[4]), 'level')]
        R.expect('P6', isf.fn, 'a window with level 0 is full', len(zero) >= 1, 'level == 0', 'no level == 0 test')


def _fail(R, body, callee):
    e = set()
    ts = body.calls(callee)
    if not ts:
        from facts import GuardMissing
        raise GuardMissing(f'{body.fn}: no call of {callee}')
    for t in ts:
        e |= prims.track_result(R.facts, body, t).failure
    return e


def _lt_false(body, lp, rp):
    e = set()
    for bb, te, fe in prims.cmp_guard_edges(body, 'Lt', lp, rp, symmetric=False):
        e |= fe
    for bb, te, fe in prims.cmp_guard_edges(body, 'Ge', lp, rp, symmetric=False):
        e |= te
    return e
