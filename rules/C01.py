"""C01 - CASE admits only holders of a valid NOC of the addressed fabric."""
from common import (mentions, false_edges_of_cmp, closure_in, async_body, closure_arg_sites, ok_return_bbs, variant_bbs, call_bbs,
                    named_local, src_calls, src_fields, src_consts, result_used, RESULT, APPLY_ONCE)
from facts import AnchorLost, op_place
import prims

EXPLANATION = """
Static structural rules over the pre-borrowck MIR of sc::case::{responder,initiator,casep}:
(a) P1: ReservedSession::complete has a closed set of callers; P2 (success-edge cut): in every CASE
caller, complete() is unreachable from function entry once the success edges of the verification
outcome are deleted (status == SessionEstablishmentSuccess / with_state(closure) succeeded), and inside
the state closure (located by content) both the construction of SessionEstablishmentSuccess and the
call update_with_state are cut by the success edges of validate_certs, validate_peer_tbs_signature and
sigma3_decrypt / sigma2_decrypt; (b) CaseP::validate_certs: Ok is cut by the fabric-id comparison,
by every add_cert and by finalise, and the last add_cert's parent derives from Fabric::root_ca of the
fabric parameter; (c) validate_peer_tbs_signature: Ok is cut by the TRUE edge of PublicKey::verify whose
message is the WriteBuf that both ephemeral keys were written to; (d) session identity arguments derive
from the certificate / the cached record and from no constant; (f) resumption: everything after
verify_resume_mic is cut by its success edge; (g) verification results are never dropped.
"""
CLAUSES = ['a: session completed only on verification success', 'b: chain validated against the addressed fabric root',
           'c: proof of possession over both ephemeral keys', 'd: session identity from certificate / record (a record enters the resumption cache whole)',
           'f: resumption gated by Resume1MIC', 'g: verification results not dropped', 'h: the chain verifier checks every step (shared with C19-a)']
NOT_DECIDED = ['cryptographic soundness', 'mutated message yields same session or none', 'equal directional keys at both ends',
               'loss / reordering schedules']
THOROUGH_CONFIGS = ['q', 'd', 'r']
MIN_OBLIGATIONS = {'q': 30, 'd': 15, 'r': 10}

RESP = 'sc::case::responder::CaseResponder'
INIT = 'sc::case::initiator::CaseInitiator'
CASEP = 'sc::case::casep::CaseP'
COMPLETE = 'transport::session::ReservedSession::complete'
UPD_STATE = 'transport::session::ReservedSession::update_with_state'
UPD = 'transport::session::ReservedSession::update'
SC = 'sc::SCStatusCodes'
SUCCESS = 'SessionEstablishmentSuccess'
WITH_STATE = 'transport::exchange::Exchange::with_state'


def check(R):
    F = R.facts
    resumption = 'case-resumption' in (F.hdr.get('features') or '')
    responder_only = 'case-responder-only' in (F.hdr.get('features') or '')

    # ---- a: who may complete a reserved session --------------------------------
    allowed = {RESP + '::handle_casesigma3', RESP + '::try_handle_sigma1_resume', INIT + '::perform',
               INIT + '::finalize_sigma2_resume', 'sc::pase::responder::PaseResponder::handle_pasepake3',
               'sc::pase::initiator::PaseInitiator::complete_session'}
    R.callers_confined('P1', COMPLETE, allowed, min_callers=3)

    # responder Sigma3
    co = async_body(R, RESP + '::handle_casesigma3')
    status = named_local(co, 'status')
    succ_edges, _ = prims.enum_local_edges(F, co, lambda pl: pl[0] in status and len(pl) == 1, SC, [SUCCESS])
    R.cut('P2', co, 'ReservedSession::complete()', call_bbs(co, COMPLETE), 'status == SessionEstablishmentSuccess', succ_edges)
    # `status` is the value returned by with_state(closure)
    clo = closure_in(R, RESP + '::handle_casesigma3', ['CaseP::validate_certs'])
    sites = closure_arg_sites(co, clo.fn, (WITH_STATE,))
    R.floor('with_state(sigma3 closure)', len(sites), 1)
    srcs = set()
    for l in status:
        srcs |= prims.sources(co, l)
    R.expect('P10', co.fn, 'status derives from with_state(sigma3 closure)',
             any(s[0] == 'call' and s[1] == WITH_STATE and s[2] == sites[0].bb for s in srcs) and None not in src_consts(srcs) and not [c for c in src_consts(srcs) if c is not None],
             f'status <= {WITH_STATE}@bb{sites[0].bb}', f'status has other sources: {sorted(map(str, srcs))[:8]}', co.where(sites[0].bb))
    # inside the closure
    succ_bbs = variant_bbs(clo, SC, SUCCESS)
    R.floor('SessionEstablishmentSuccess constructions', len(succ_bbs), 1)
    upd_bbs = call_bbs(clo, UPD_STATE)
    for gname, gdesc in ((CASEP + '::validate_certs', 'validate_certs ok'),
                         (CASEP + '::validate_peer_tbs_signature', 'validate_peer_tbs_signature ok'),
                         (CASEP + '::sigma3_decrypt', 'sigma3_decrypt ok'),
                         ('fabric::Fabrics::get', 'fabric of casep.local_fabric_idx exists')):
        host = clo
        if gname == 'fabric::Fabrics::get':
            # the fabric lookup sits in an and_then closure; its Option is tested in clo via and_then's result
            g = lambda: R.call_guard(clo, 'core::option::Option::and_then', desc='NonZeroU8::new(idx).and_then(fabrics.get)')
        else:
            g = (lambda n=gname: R.call_guard(clo, n))
        R.cut('P2', host, 'construct SessionEstablishmentSuccess', succ_bbs, gdesc, g)
        R.cut('P2', host, 'update_with_state', upd_bbs, gdesc, g)
    # d: identity arguments of update_with_state
    _identity_args(R, clo, UPD_STATE, peer_node_arg=3, mode_arg=7, cert_call='cert::CertRef::get_node_id',
                   fab_calls={CASEP + '::local_fabric_idx'}, cat_call='cert::CertRef::get_cat_ids')

    # initiator
    if not responder_only:
        co = async_body(R, INIT + '::perform')
        clo = closure_in(R, INIT + '::perform', ['CaseP::validate_certs'])
        sites = closure_arg_sites(co, clo.fn, (WITH_STATE,))
        R.floor('with_state(sigma2 closure)', len(sites), 1)
        comp = [t.bb for t in co.calls(COMPLETE)]
        R.cut('P2', co, 'ReservedSession::complete()', comp, 'with_state(sigma2 validation closure) ok',
              lambda: _site_success(R, co, sites))
        R.cut('P2', co, 'ReservedSession::update', call_bbs(co, UPD), 'with_state(sigma2 validation closure) ok',
              lambda: _site_success(R, co, sites))
        oks = ok_return_bbs(clo)
        R.floor('Ok returns of the sigma2 closure', len(oks), 1)
        for gname in (CASEP + '::validate_certs', CASEP + '::validate_peer_tbs_signature', CASEP + '::sigma2_decrypt'):
            R.cut('P2', clo, 'return Ok', oks, gname.split('::')[-1] + ' ok', lambda n=gname: R.call_guard(clo, n))
        # the responder's node id must be the one we meant to reach
        R.cut('P2', clo, 'return Ok', oks, 'responder_noc.node_id == expected peer',
              lambda: false_edges_of_cmp(clo, 'Ne', lambda s: 'cert::CertRef::get_node_id' in src_calls(s),
                                         lambda s: mentions(s, 'peer_node_id')))
        # the status report must say success
        st_read = co.calls('sc::StatusReport::read')
        R.floor('StatusReport::read in perform', len(st_read), 1)

    # ---- b: validate_certs -----------------------------------------------------------
    vc = R.body(CASEP + '::validate_certs')
    oks = ok_return_bbs(vc)
    R.floor('Ok returns of validate_certs', len(oks), 1)

    def fid_ne():
        res = prims.cmp_guard_edges(vc, 'Ne',
                                    lambda s: 'fabric::Fabric::fabric_id' in src_calls(s),
                                    lambda s: 'cert::CertRef::get_fabric_id' in src_calls(s))
        e = set()
        for bb, te, fe in res:
            e |= fe
        return e
    R.cut('P2', vc, 'return Ok', oks, 'fabric.fabric_id() == noc.get_fabric_id()', fid_ne)
    R.cut('P2', vc, 'return Ok', oks, 'CertVerifier::finalise ok', lambda: R.call_guard(vc, 'cert::CertVerifier::finalise'))
    adds = vc.calls('cert::CertVerifier::add_cert')
    R.floor('add_cert calls in validate_certs', len(adds), 2)
    for k, s in enumerate(adds):
        R.cut_from('P2', vc, s.bb, f'finalise after add_cert#{k}', call_bbs(vc, 'cert::CertVerifier::finalise'),
                   f'add_cert#{k} ok', lambda s=s: R.call_guard(vc, 'cert::CertVerifier::add_cert', pick=lambda t: t.bb == s.bb))
    # root provenance: some add_cert's parent derives from Fabric::root_ca(fabric param)
    root_ok = False
    for s in adds:
        srcs = prims.sources(vc, s.d['a'][1], through={'cert::CertRef::new', 'tlv::read::TLVElement::new', 'fabric::Fabric::root_ca'})
        if 'fabric::Fabric::root_ca' in src_calls(srcs) and ('arg', 4) in srcs:
            root_ok = True
    R.expect('P10', vc.fn, 'chain is anchored at Fabric::root_ca(fabric)', root_ok,
             'an add_cert parent derives from fabric.root_ca() of the `fabric` parameter',
             'no add_cert parent derives from Fabric::root_ca of the fabric parameter', where=f"{vc.file}:{vc.line}")
    # the fabric handed to validate_certs is the one selected by the destination id
    w = R.facts.writers.get('local_fabric_idx:' + CASEP, set())
    R.confine('P1', 'writers of CaseP.local_fabric_idx', w,
              {CASEP + '::start', CASEP + '::start_initiator', CASEP + '::new', CASEP + '::init', CASEP + '::reset'})
    s1 = async_body(R, RESP + '::handle_casesigma1')
    start = s1.calls(CASEP + '::start')
    R.floor('CaseP::start in handle_casesigma1', len(start), 1)
    srcs = prims.sources(s1, start[0].d['a'][4], through={'core::option::Option::unwrap', 'core::num::nonzero::NonZero::get', 'fmt::Try::into_result',
                                                            'core::result::Result::unwrap', 'core::option::Option::expect'})
    getby = closure_in(R, RESP + '::handle_casesigma1', ['Fabrics::get_by_dest_id'])
    gsites = closure_arg_sites(s1, getby.fn, (WITH_STATE,))
    R.floor('with_state(get_by_dest_id closure)', len(gsites), 1)
    R.expect('P10', s1.fn, 'CaseP::start(local_fabric_idx) derives from get_by_dest_id',
             any(s[0] == 'call' and s[1] == WITH_STATE and s[2] == gsites[0].bb for s in srcs)
             and not [c for c in src_consts(srcs) if c is not None],
             'fabric index <= with_state(|s| s.fabrics.get_by_dest_id(..))', f'sources: {sorted(map(str, srcs))[:10]}',
             where=s1.where(start[0].bb))
    R.cut('P2', s1, 'CaseP::start', [start[0].bb], 'get_by_dest_id returned Some',
          lambda: _opt_guard(R, s1, gsites))

    # ---- c: proof of possession ---------------------------------------------------------
    vs = R.body(CASEP + '::validate_peer_tbs_signature')
    oks = ok_return_bbs(vs)
    R.cut('P2', vs, 'return Ok', oks, 'PublicKey::verify == true',
          lambda: R.call_guard(vs, 'crypto::PublicKey::verify', inner=1))
    ver = vs.calls('crypto::PublicKey::verify')
    if ver:
        # message = WriteBuf::as_slice of the buffer that both ephemeral keys were written to
        fields_written = set()
        for t in vs.calls('tlv::write::TLVWrite::str'):
            fields_written |= {f.split(':')[0] for f in src_fields(prims.sources(vs, t.d['a'][2], through={'crypto::canon::CryptoSensitive::access'}))}
        R.expect('P10', vs.fn, 'signed data covers peer_pub_key and our_pub_key',
                 {'peer_pub_key', 'our_pub_key'} <= fields_written,
                 f'TBS fields written: {sorted(fields_written)}', f'TBS fields written: {sorted(fields_written)}', where=vs.where(ver[0].bb))
        msrc = prims.sources(vs, ver[0].d['a'][1], through={'utils::storage::writebuf::WriteBuf::as_slice'})
        R.expect('P10', vs.fn, 'verified message is the TBS buffer', 'utils::storage::writebuf::WriteBuf::as_slice' in src_calls(msrc),
                 'message <= tw.as_slice()', f'message sources {sorted(map(str, msrc))[:6]}', where=vs.where(ver[0].bb))
        ksrc = prims.sources(vs, ver[0].d['a'][0], through={'crypto::Crypto::pub_key', 'crypto::canon::CryptoSensitiveRef::try_new',
                                                            'core::ops::try_trait::Try::branch', 'cert::CertRef::pubkey'})
        R.expect('P10', vs.fn, 'verification key is the NOC public key', 'cert::CertRef::pubkey' in src_calls(ksrc),
                 'key <= noc_cert.pubkey()', f'key sources {sorted(map(str, ksrc))[:6]}', where=vs.where(ver[0].bb))

    # ---- f: resumption ----------------------------------------------------------------------
    if resumption:
        # the cache hands a resumed session its identity (fabric, node id, CATs): a record that enters the cache is the one built
        # from THIS handshake's certificate, whole - not an older record of the same peer with some fields refreshed
        iu = R.body('sc::case::resumption::ResumableSessions::insert_or_update')
        pushes = iu.calls('utils::storage::vec::Vec::push')
        R.floor('records.push in insert_or_update', len(pushes), 1)
        for t in pushes:
            s_ = prims.sources(iu, t.d['a'][1])
            from_arg = any(x[0] == 'arg' and x[1] == 2 for x in s_)
            stale = sorted(c for c in src_calls(s_) if c.endswith(('Vec::remove', 'Vec::pop', 'Vec::swap_remove', 'Index::index', 'IndexMut::index_mut', 'mem::replace', 'mem::take')))
            R.expect('P10', iu.fn, 'the record stored in the resumption cache is the caller\'s freshly built record, whole', from_arg and not stale and not [f for f in src_fields(s_) if f.startswith('records:')],
                     'records.push(record)', f'the stored record is assembled from an existing cache entry ({stale or sorted(src_fields(s_))[:3]}): fields not copied over - e.g. peer_cat_ids - keep the value of an earlier '
                     'certificate, and a resumed session is bound to them', iu.where(t.bb))
        co = async_body(R, RESP + '::try_handle_sigma1_resume')
        g = lambda: R.call_guard(co, 'sc::case::casep::resume::verify_resume_mic')
        for adesc, names in (('mint new resumption id (Crypto::rand)', ('crypto::Crypto::rand',)),
                             ('send Sigma2Resume', ('transport::exchange::Exchange::send_with',)),
                             ('ReservedSession::complete()', (COMPLETE,)),
                             ('compute_resumption_session_keys', ('sc::case::casep::resume::compute_resumption_session_keys',))):
            R.cut('P2', co, adesc, call_bbs(co, *names), 'verify_resume_mic ok', g)
        upd = closure_in(R, RESP + '::try_handle_sigma1_resume', ['ReservedSession::update_with_state'])
        usites = closure_arg_sites(co, upd.fn, (WITH_STATE,))
        R.floor('with_state(update closure)', len(usites), 1)
        R.cut('P2', co, 'with_state(update_with_state closure)', [u.bb for u in usites], 'verify_resume_mic ok', g)
        R.cut('P2', co, 'ReservedSession::complete()', call_bbs(co, COMPLETE), 'with_state(update_with_state) ok',
              lambda: _site_success(R, co, usites))
        ok = named_local(co, 'ok')
        te = set()
        for l in ok:
            t, f = prims.bool_local_edges(co, l)
            te |= t
        R.cut('P2', co, 'ReservedSession::complete()', call_bbs(co, COMPLETE), 'SigmaFinished status ok == true', te)
        # the MIC key derives from the cached record's shared secret
        drk = co.calls('sc::case::casep::resume::derive_resume_key')
        R.floor('derive_resume_key in try_handle_sigma1_resume', len(drk), 2)
        for t in drk:
            s = prims.sources(co, t.d['a'][2], through={'crypto::canon::CryptoSensitive::reference'})
            R.expect('P10', co.fn, f'derive_resume_key secret at {co.where(t.bb)} is record.shared_secret',
                     any(f.startswith('shared_secret:sc::case::resumption::ResumableSession') for f in src_fields(s)),
                     'secret <= record.shared_secret', f'sources {sorted(map(str, s))[:6]}', where=co.where(t.bb))
        # the fabric must still exist
        R.cut('P2', upd, 'update_with_state', call_bbs(upd, UPD_STATE), 'state.fabrics.get(record.fab_idx) is Some',
              lambda: R.call_guard(upd, 'core::option::Option::ok_or', desc='fabrics.get(record.fab_idx).ok_or(Invalid)'))
        _identity_args(R, upd, UPD_STATE, peer_node_arg=3, mode_arg=7, record=True)
        if not responder_only:
            fin = async_body(R, INIT + '::finalize_sigma2_resume')
            R.cut('P2', fin, 'ReservedSession::complete()', call_bbs(fin, COMPLETE), 'verify_resume_mic ok',
                  lambda: R.call_guard(fin, 'sc::case::casep::resume::verify_resume_mic'))

    # ---- g: verification results are never dropped -----------------------------------------------
    crit = ('crypto::PublicKey::verify', 'cert::CertVerifier::add_cert', 'cert::CertVerifier::finalise',
            CASEP + '::validate_certs', CASEP + '::validate_peer_tbs_signature', CASEP + '::sigma3_decrypt',
            CASEP + '::sigma2_decrypt', 'sc::case::casep::resume::verify_resume_mic', 'crypto::Aead::decrypt_in_place',
            'fabric::Fabrics::get_by_dest_id', 'fabric::Fabric::is_dest_id')
    n = 0
    for b in F.bodies.values():
        if not b.focus or not (b.fn.startswith('sc::case') or b.fn.startswith('cert::') or b.fn.startswith('failsafe::') or b.fn.startswith('fabric::')):
            continue
        for c in crit:
            if c in b.calls_summary:
                result_used(R, 'P8', b, (c,))
                n += 1
    R.floor('P8 verification call sites', n, 10)

    # ---- h: the chain verifier itself (shared with C19-a) ------------------------------------
    with R.clause('h'):
        # "an operational certificate chain that verifies up to the root": validate_certs only delegates to CertVerifier - its per-step
        # rules (authority link, signature, validity window, usage policy, path length and depth bookkeeping) are part of this property
        from C19 import chain_step_rules
        chain_step_rules(R)



def _reaches(body, frm, tos):
    r = prims.reach(body, body.succ[frm])
    return bool(set(tos) & r)


def _site_success(R, body, sites):
    e = set()
    for s in sites:
        tr = prims.track_result(R.facts, body, s)
        e |= tr.success
    return e


def _opt_guard(R, body, sites):
    """success edges (Some) of the Option carried inside the Ok of with_state(closure)"""
    e = set()
    for s in sites:
        tr = prims.track_result(R.facts, body, s, inner=1)
        e |= tr.success
    return e


def _identity_args(R, clo, callee, peer_node_arg, mode_arg, cert_call=None, fab_calls=(), cat_call=None, record=False):
    t = clo.calls(callee)[0]
    a = t.d['a']
    through = {'core::ops::try_trait::Try::branch', 'core::option::Option::unwrap', 'fmt::Try::into_result', 'core::num::nonzero::NonZero::new',
               'core::option::Option::expect'}
    peer = prims.sources(clo, a[peer_node_arg], through=through)
    mode = prims.sources(clo, a[mode_arg], through=through | {'cert::CertRef::get_cat_ids'})
    if record:
        okp = mentions(peer, 'peer_nodeid') and any('record' in x[1] for x in peer if x[0] in ('upvar',)) or \
            any(f.startswith('peer_nodeid:sc::case::resumption::ResumableSession') for f in src_fields(peer))
        okm = mentions(mode, 'fab_idx') and mentions(mode, 'peer_cat_ids')
        R.expect('P10', clo.fn, 'resumed session peer node id is the cached record\'s', okp and not [c for c in src_consts(peer) if c is not None],
                 'peer_nodeid <= record.peer_nodeid', f'sources {sorted(map(str, peer))[:6]}', clo.where(t.bb))
        R.expect('P10', clo.fn, 'resumed session fabric and CATs are the cached record\'s', okm,
                 'mode <= record.fab_idx, record.peer_cat_ids', f'sources {sorted(map(str, mode))[:8]}', clo.where(t.bb))
        return
    okp = cert_call in src_calls(peer) and not [c for c in src_consts(peer) if c is not None]
    R.expect('P10', clo.fn, 'session peer node id is the certificate\'s', okp,
             f'peer_nodeid <= {cert_call}', f'sources {sorted(map(str, peer))[:6]}', clo.where(t.bb))
    okm = bool(set(fab_calls) & src_calls(mode))
    R.expect('P10', clo.fn, 'session fabric index is the handshake\'s', okm,
             f'mode.fab_idx <= {sorted(fab_calls)}', f'sources {sorted(map(str, mode))[:8]}', clo.where(t.bb))
    # CATs: the local passed in the mode must have been filled by get_cat_ids of the certificate
    cats = clo.calls(cat_call)
    R.expect('P10', clo.fn, 'session CATs come from the certificate', len(cats) >= 1,
             f'{cat_call} called', f'{cat_call} not called', clo.where(t.bb))
