"""C01 - CASE admits only holders of a valid NOC of the addressed fabric."""
from common import (mentions, false_edges_of_cmp, closure_in, async_body, closure_arg_sites, ok_return_bbs, variant_bbs, call_bbs,
                    named_local, src_calls, src_fields, src_consts, result_used, RESULT, APPLY_ONCE, complete_removal_scan)
from facts import AnchorLost, op_place
import prims

EXPLANATION = """
Static structural rules over the pre-borrowck MIR of sc::case::{responder,initiator,casep}:
(a) P1: ReservedSession::complete has a closed set of callers; P2 (success-edge cut): in every CASE
caller, complete() is unreachable from function entry once the success edges of the verification
outcome are deleted (status == SessionEstablishmentSuccess / with_state(closure) succeeded), and inside
the state closure (located by content) both the construction of SessionEstablishmentSuccess and the
call update_with_state are cut by the success edges of validate_certs, validate_peer_tbs_signature and
sigma3_decrypt / sigma2_decrypt; (b) CaseP::validate_certs: Ok is cut by the fabric-id comparison,
by every add_cert and by finalise, and the last add_cert's parent derives from Fabric::root_ca of the
fabric parameter; (c) validate_peer_tbs_signature: Ok is cut by the TRUE edge of PublicKey::verify whose
message is the WriteBuf that both ephemeral keys were written to; (d) session identity arguments derive
from the certificate / the cached record and from no constant; (f) resumption: everything after
verify_resume_mic is cut by its success edge; (g) verification results are never dropped.
"""
CLAUSES = ['a: session completed only on verification success', 'b: chain validated against the addressed fabric root',
           'c: proof of possession over both ephemeral keys', 'd: session identity from certificate / record (a record enters the resumption cache whole)',
           'e: handshake keys are salted with the running transcript hash; every Sigma message is hashed in whole, before the keys that cover it',
           'f: resumption gated by Resume1MIC', 'g: verification results not dropped', 'h: the chain verifier checks every step (shared with C19-a)']
NOT_DECIDED = ['cryptographic soundness', 'mutated message yields same session or none', 'equal directional keys at both ends',
               'loss / reordering schedules']
THOROUGH_CONFIGS = ['q', 'd', 'r']
MIN_OBLIGATIONS = {'q': 30, 'd': 15, 'r': 10}

RESP = 'sc::case::responder::CaseResponder'
INIT = 'sc::case::initiator::CaseInitiator'
CASEP = 'sc::case::casep::CaseP'
COMPLETE = 'transport::session::ReservedSession::complete'
UPD_STATE = 'transport::session::ReservedSession::update_with_state'
UPD = 'transport::session::ReservedSession::update'
SC = 'sc::SCStatusCodes'
SUCCESS = 'SessionEstablishmentSuccess'
WITH_STATE = 'transport::exchange::Exchange::with_state'


def check(R):
    F = R.facts
    resumption = 'case-resumption' in (F.hdr.get('features') or '')
    responder_only = 'case-responder-only' in (F.hdr.get('features') or '')

    # ---- a: who may complete a reserved session --------------------------------
    allowed = {RESP + '::handle_casesigma3', RESP + '::try_handle_sigma1_resume', INIT + '::perform',
               INIT + '::finalize_sigma2_resume', 'sc::pase::responder::PaseResponder::handle_pasepake3',
               'sc::pase::initiator::PaseInitiator::complete_session'}
    R.callers_confined('P1', COMPLETE, allowed, min_callers=3)

    # responder Sigma3
    co = async_body(R, RESP + '::handle_casesigma3')
    status = named_local(co, 'status')
    succ_edges, _ = prims.enum_local_edges(F, co, lambda pl: pl[0] in status and len(pl) == 1, SC, [SUCCESS])
    R.cut('P2', co, 'ReservedSession::complete()', call_bbs(co, COMPLETE), 'status == SessionEstablishmentSuccess', succ_edges)
    # `status` is the value returned by with_state(closure)
    clo = closure_in(R, RESP + '::handle_casesigma3', ['CaseP::validate_certs'])
    sites = closure_arg_sites(co, clo.fn, (WITH_STATE,))
    R.floor('with_state(sigma3 closure)', len(sites), 1)
    srcs = set()
    for l in status:
        srcs |= prims.sources(co, l)
    R.expect('P10', co.fn, 'status derives from with_state(sigma3 closure)',
             any(s[0] == 'call' and s[1] == WITH_STATE and s[2] == sites[0].bb for s in srcs) and None not in src_consts(srcs) and not [c for c in src_consts(srcs) if c is not None],
             f'status <= {WITH_STATE}@bb{sites[0].bb}', f'status has other sources: {sorted(map(str, srcs))[:8]}', co.where(sites[0].bb))
    # inside the closure
    succ_bbs = variant_bbs(clo, SC, SUCCESS)
    R.floor('SessionEstablishmentSuccess constructions', len(succ_bbs), 1)
    upd_bbs = call_bbs(clo, UPD_STATE)
    for gname, gdesc in ((CASEP + '::validate_certs', 'validate_certs ok'),
                         (CASEP + '::validate_peer_tbs_signature', 'validate_peer_tbs_signature ok'),
                         (CASEP + '::sigma3_decrypt', 'sigma3_decrypt ok'),
                         ('fabric::Fabrics::get', 'fabric of casep.local_fabric_idx exists')):
        host = clo
        if gname == 'fabric::Fabrics::get':
            # the fabric lookup sits in an and_then closure; its Option is tested in clo via and_then's result
            g = lambda: R.call_guard(clo, 'core::option::Option::and_then', desc='NonZeroU8::new(idx).and_then(fabrics.get)')
        else:
            g = (lambda n=gname: R.call_guard(clo, n))
        R.cut('P2', host, 'construct SessionEstablishmentSuccess', succ_bbs, gdesc, g)
        R.cut('P2', host, 'update_with_state', upd_bbs, gdesc, g)
    # d: identity arguments of update_with_state
    _identity_args(R, clo, UPD_STATE, peer_node_arg=3, mode_arg=7, cert_call='cert::CertRef::get_node_id',
                   fab_calls={CASEP + '::local_fabric_idx'}, cat_call='cert::CertRef::get_cat_ids')

    # initiator
    if not responder_only:
        co = async_body(R, INIT + '::perform')
        clo = closure_in(R, INIT + '::perform', ['CaseP::validate_certs'])
        sites = closure_arg_sites(co, clo.fn, (WITH_STATE,))
        R.floor('with_state(sigma2 closure)', len(sites), 1)
        comp = [t.bb for t in co.calls(COMPLETE)]
        R.cut('P2', co, 'ReservedSession::complete()', comp, 'with_state(sigma2 validation closure) ok',
              lambda: _site_success(R, co, sites))
        R.cut('P2', co, 'ReservedSession::update', call_bbs(co, UPD), 'with_state(sigma2 validation closure) ok',
              lambda: _site_success(R, co, sites))
        oks = ok_return_bbs(clo)
        R.floor('Ok returns of the sigma2 closure', len(oks), 1)
        for gname in (CASEP + '::validate_certs', CASEP + '::validate_peer_tbs_signature', CASEP + '::sigma2_decrypt'):
            R.cut('P2', clo, 'return Ok', oks, gname.split('::')[-1] + ' ok', lambda n=gname: R.call_guard(clo, n))
        # the responder's node id must be the one we meant to reach
        R.cut('P2', clo, 'return Ok', oks, 'responder_noc.node_id == expected peer',
              lambda: false_edges_of_cmp(clo, 'Ne', lambda s: 'cert::CertRef::get_node_id' in src_calls(s),
                                         lambda s: mentions(s, 'peer_node_id')))
        # the status report must say success
        st_read = co.calls('sc::StatusReport::read')
        R.floor('StatusReport::read in perform', len(st_read), 1)

    # ---- b: validate_certs -----------------------------------------------------------
    vc = R.body(CASEP + '::validate_certs')
    oks = ok_return_bbs(vc)
    R.floor('Ok returns of validate_certs', len(oks), 1)

    def fid_ne():
        res = prims.cmp_guard_edges(vc, 'Ne',
                                    lambda s: 'fabric::Fabric::fabric_id' in src_calls(s),
                                    lambda s: 'cert::CertRef::get_fabric_id' in src_calls(s))
        e = set()
        for bb, te, fe in res:
            e |= fe
        return e
    R.cut('P2', vc, 'return Ok', oks, 'fabric.fabric_id() == noc.get_fabric_id()', fid_ne)
    R.cut('P2', vc, 'return Ok', oks, 'CertVerifier::finalise ok', lambda: R.call_guard(vc, 'cert::CertVerifier::finalise'))
    adds = vc.calls('cert::CertVerifier::add_cert')
    R.floor('add_cert calls in validate_certs', len(adds), 2)
    for k, s in enumerate(adds):
        R.cut_from('P2', vc, s.bb, f'finalise after add_cert#{k}', call_bbs(vc, 'cert::CertVerifier::finalise'),
                   f'add_cert#{k} ok', lambda s=s: R.call_guard(vc, 'cert::CertVerifier::add_cert', pick=lambda t: t.bb == s.bb))
    # root provenance: some add_cert's parent derives from Fabric::root_ca(fabric param)
    root_ok = False
    for s in adds:
        srcs = prims.sources(vc, s.d['a'][1], through={'cert::CertRef::new', 'tlv::read::TLVElement::new', 'fabric::Fabric::root_ca'})
        if 'fabric::Fabric::root_ca' in src_calls(srcs) and ('arg', 4) in srcs:
            root_ok = True
    R.expect('P10', vc.fn, 'chain is anchored at Fabric::root_ca(fabric)', root_ok,
             'an add_cert parent derives from fabric.root_ca() of the `fabric` parameter',
             'no add_cert parent derives from Fabric::root_ca of the fabric parameter', where=f"{vc.file}:{vc.line}")
    # the fabric handed to validate_certs is the one selected by the destination id
    w = R.facts.writers.get('local_fabric_idx:' + CASEP, set())
    R.confine('P1', 'writers of CaseP.local_fabric_idx', w,
              {CASEP + '::start', CASEP + '::start_initiator', CASEP + '::new', CASEP + '::init', CASEP + '::reset'})
    s1 = async_body(R, RESP + '::handle_casesigma1')
    start = s1.calls(CASEP + '::start')
    R.floor('CaseP::start in handle_casesigma1', len(start), 1)
    srcs = prims.sources(s1, start[0].d['a'][4], through={'core::option::Option::unwrap', 'core::num::nonzero::NonZero::get', 'fmt::Try::into_result',
                                                            'core::result::Result::unwrap', 'core::option::Option::expect'})
    getby = closure_in(R, RESP + '::handle_casesigma1', ['Fabrics::get_by_dest_id'])
    gsites = closure_arg_sites(s1, getby.fn, (WITH_STATE,))
    R.floor('with_state(get_by_dest_id closure)', len(gsites), 1)
    R.expect('P10', s1.fn, 'CaseP::start(local_fabric_idx) derives from get_by_dest_id',
             any(s[0] == 'call' and s[1] == WITH_STATE and s[2] == gsites[0].bb for s in srcs)
             and not [c for c in src_consts(srcs) if c is not None],
             'fabric index <= with_state(|s| s.fabrics.get_by_dest_id(..))', f'sources: {sorted(map(str, srcs))[:10]}',
             where=s1.where(start[0].bb))
    R.cut('P2', s1, 'CaseP::start', [start[0].bb], 'get_by_dest_id returned Some',
          lambda: _opt_guard(R, s1, gsites))

    # ---- c: proof of possession ---------------------------------------------------------
    vs = R.body(CASEP + '::validate_peer_tbs_signature')
    oks = ok_return_bbs(vs)
    R.cut('P2', vs, 'return Ok', oks, 'PublicKey::verify == true',
          lambda: R.call_guard(vs, 'crypto::PublicKey::verify', inner=1))
    ver = vs.calls('crypto::PublicKey::verify')
    if ver:
        # message = WriteBuf::as_slice of the buffer that both ephemeral keys were written to
        fields_written = set()
        for t in vs.calls('tlv::write::TLVWrite::str'):
            fields_written |= {f.split(':')[0] for f in src_fields(prims.sources(vs, t.d['a'][2], through={'crypto::canon::CryptoSensitive::access'}))}
        R.expect('P10', vs.fn, 'signed data covers peer_pub_key and our_pub_key',
                 {'peer_pub_key', 'our_pub_key'} <= fields_written,
                 f'TBS fields written: {sorted(fields_written)}', f'TBS fields written: {sorted(fields_written)}', where=vs.where(ver[0].bb))
        msrc = prims.sources(vs, ver[0].d['a'][1], through={'utils::storage::writebuf::WriteBuf::as_slice'})
        R.expect('P10', vs.fn, 'verified message is the TBS buffer', 'utils::storage::writebuf::WriteBuf::as_slice' in src_calls(msrc),
                 'message <= tw.as_slice()', f'message sources {sorted(map(str, msrc))[:6]}', where=vs.where(ver[0].bb))
        ksrc = prims.sources(vs, ver[0].d['a'][0], through={'crypto::Crypto::pub_key', 'crypto::canon::CryptoSensitiveRef::try_new',
                                                            'core::ops::try_trait::Try::branch', 'cert::CertRef::pubkey'})
        R.expect('P10', vs.fn, 'verification key is the NOC public key', 'cert::CertRef::pubkey' in src_calls(ksrc),
                 'key <= noc_cert.pubkey()', f'key sources {sorted(map(str, ksrc))[:6]}', where=vs.where(ver[0].bb))

    # ---- f: resumption ----------------------------------------------------------------------
    if resumption:
        # the cache hands a resumed session its identity (fabric, node id, CATs): a record that enters the cache is the one built
        # from THIS handshake's certificate, whole - not an older record of the same peer with some fields refreshed
        iu = R.body('sc::case::resumption::ResumableSessions::insert_or_update')
        pushes = iu.calls('utils::storage::vec::Vec::push')
        R.floor('records.push in insert_or_update', len(pushes), 1)
        for t in pushes:
            s_ = prims.sources(iu, t.d['a'][1])
            from_arg = any(x[0] == 'arg' and x[1] == 2 for x in s_)
            stale = sorted(c for c in src_calls(s_) if c.endswith(('Vec::remove', 'Vec::pop', 'Vec::swap_remove', 'Index::index', 'IndexMut::index_mut', 'mem::replace', 'mem::take')))
            R.expect('P10', iu.fn, 'the record stored in the resumption cache is the caller\'s freshly built record, whole', from_arg and not stale and not [f for f in src_fields(s_) if f.startswith('records:')],
                     'records.push(record)', f'the stored record is assembled from an existing cache entry ({stale or sorted(src_fields(s_))[:3]}): fields not copied over - e.g. peer_cat_ids - keep the value of an earlier '
                     'certificate, and a resumed session is bound to them', iu.where(t.bb))
        # a resumed session is bound to the fabric INDEX of its record, and indices are re-issued: a record must not survive the fabric it
        # was made for (or the next fabric commissioned onto that index admits the old peer without any chain to its root)
        complete_removal_scan(R, 'P4', R.body('sc::case::resumption::ResumableSessions::remove_for_fabric'), 'fab_idx:sc::case::resumption::ResumableSession',
                              'the purge of a removed fabric drops every resumption record made for it')
        co = async_body(R, RESP + '::try_handle_sigma1_resume')
        g = lambda: R.call_guard(co, 'sc::case::casep::resume::verify_resume_mic')
        for adesc, names in (('mint new resumption id (Crypto::rand)', ('crypto::Crypto::rand',)),
                             ('send Sigma2Resume', ('transport::exchange::Exchange::send_with',)),
                             ('ReservedSession::complete()', (COMPLETE,)),
                             ('compute_resumption_session_keys', ('sc::case::casep::resume::compute_resumption_session_keys',))):
            R.cut('P2', co, adesc, call_bbs(co, *names), 'verify_resume_mic ok', g)
        upd = closure_in(R, RESP + '::try_handle_sigma1_resume', ['ReservedSession::update_with_state'])
        usites = closure_arg_sites(co, upd.fn, (WITH_STATE,))
        R.floor('with_state(update closure)', len(usites), 1)
        R.cut('P2', co, 'with_state(update_with_state closure)', [u.bb for u in usites], 'verify_resume_mic ok', g)
        R.cut('P2', co, 'ReservedSession::complete()', call_bbs(co, COMPLETE), 'with_state(update_with_state) ok',
              lambda: _site_success(R, co, usites))
        ok = named_local(co, 'ok')
        te = set()
        for l in ok:
            t, f = prims.bool_local_edges(co, l)
            te |= t
        R.cut('P2', co, 'ReservedSession::complete()', call_bbs(co, COMPLETE), 'SigmaFinished status ok == true', te)
        # the MIC key derives from the cached record's shared secret
        drk = co.calls('sc::case::casep::resume::derive_resume_key')
        R.floor('derive_resume_key in try_handle_sigma1_resume', len(drk), 2)
        for t in drk:
            s = prims.sources(co, t.d['a'][2], through={'crypto::canon::CryptoSensitive::reference'})
            R.expect('P10', co.fn, f'derive_resume_key secret at {co.where(t.bb)} is record.shared_secret',
                     any(f.startswith('shared_secret:sc::case::resumption::ResumableSession') for f in src_fields(s)),
                     'secret <= record.shared_secret', f'sources {sorted(map(str, s))[:6]}', where=co.where(t.bb))
        # the fabric must still exist
        R.cut('P2', upd, 'update_with_state', call_bbs(upd, UPD_STATE), 'state.fabrics.get(record.fab_idx) is Some',
              lambda: R.call_guard(upd, 'core::option::Option::ok_or', desc='fabrics.get(record.fab_idx).ok_or(Invalid)'))
        _identity_args(R, upd, UPD_STATE, peer_node_arg=3, mode_arg=7, record=True)
        if not responder_only:
            fin = async_body(R, INIT + '::finalize_sigma2_resume')
            R.cut('P2', fin, 'ReservedSession::complete()', call_bbs(fin, COMPLETE), 'verify_resume_mic ok',
                  lambda: R.call_guard(fin, 'sc::case::casep::resume::verify_resume_mic'))

    # ---- g: verification results are never dropped -----------------------------------------------
    crit = ('crypto::PublicKey::verify', 'cert::CertVerifier::add_cert', 'cert::CertVerifier::finalise',
            CASEP + '::validate_certs', CASEP + '::validate_peer_tbs_signature', CASEP + '::sigma3_decrypt',
            CASEP + '::sigma2_decrypt', 'sc::case::casep::resume::verify_resume_mic', 'crypto::Aead::decrypt_in_place',
            'fabric::Fabrics::get_by_dest_id', 'fabric::Fabric::is_dest_id')
    n = 0
    for b in F.bodies.values():
        if not b.focus or not (b.fn.startswith('sc::case') or b.fn.startswith('cert::') or b.fn.startswith('failsafe::') or b.fn.startswith('fabric::')):
            continue
        for c in crit:
            if c in b.calls_summary:
                result_used(R, 'P8', b, (c,))
                n += 1
    R.floor('P8 verification call sites', n, 10)

    # ---- e: the transcript feeds the keys -------------------------------------------------------
    with R.clause('e'):
        transcript_rules(R, resumption, responder_only)

    # ---- h: the chain verifier itself (shared with C19-a) ------------------------------------
    with R.clause('h'):
        # "an operational certificate chain that verifies up to the root": validate_certs only delegates to CertVerifier - its per-step
        # rules (authority link, signature, validity window, usage policy, path length and depth bookkeeping) are part of this property
        from C19 import chain_step_rules
        chain_step_rules(R)



KDF = 'crypto::Kdf::expand'
TT_THR = {'crypto::canon::CryptoSensitive::access', 'crypto::canon::CryptoSensitive::access_mut', 'crypto::canon::CryptoSensitive::reference',
          'crypto::canon::CryptoSensitiveRef::access', 'core::ops::index::IndexMut::index_mut', 'core::ops::index::Index::index'}


def transcript_rules(R, resumption, responder_only):
    """"... proved possession of that NOC's private key *over this transcript*": the handshake keys (S2K, S3K, session keys) are salted
    with the running transcript hash, the transcript state has one owner, and every Sigma message is hashed in - whole, and before
    the keys that depend on it are derived."""
    F = R.facts
    UPD_TT, CUR_TT = CASEP + '::update_tt', CASEP + '::current_tt_hash'

    # e1: every KDF expansion in CaseP is salted with the transcript hash and keyed with the ECDH shared secret
    def from_transcript(body, operand, depth=3, seen=()):
        srcs = prims.sources(body, operand, through=TT_THR)
        if any(x[0] == 'mutcall' and x[1] in (CUR_TT, CASEP + '::start') for x in srcs):
            return True, f'{body.fn.split("::")[-1]}: <= current_tt_hash'
        if depth <= 0:
            return False, f'{body.fn}: no transcript hash among {sorted(map(str, srcs))[:6]}'
        why = f'{body.fn}: no transcript hash among {sorted(map(str, srcs))[:6]}'
        for x in sorted(x for x in srcs if x[0] == 'upvar'):
            # a captured variable: continue in the enclosing body, at the variable the compiler resolved the capture to
            name, parent = x[1].lstrip('*'), body.fn
            while '::{closure#' in parent:
                parent = parent.rsplit('::{closure#', 1)[0]
                pb = F.bodies.get(parent)
                if pb is None:
                    continue
                try:
                    locs = named_local(pb, name)
                except AnchorLost:
                    locs = set()
                for l in sorted(locs):
                    r = from_transcript(pb, l, depth - 1)
                    if r[0]:
                        return True, f'captured {name} <= ' + r[1]
        for x in sorted(x for x in srcs if x[0] == 'arg'):
            callers = [(cb, t) for cb in F.bodies.values() if cb.focus and '::tests::' not in cb.fn for t in cb.calls()
                       if (t.d.get('r') or t.d.get('f', '')) == body.fn and len(t.d['a']) >= x[1]]
            if not callers:
                continue
            res = [from_transcript(cb, t.d['a'][x[1] - 1], depth - 1) for cb, t in callers]
            if all(r[0] for r in res):
                return True, f'parameter {x[1]} <= ' + '; '.join(sorted({r[1] for r in res}))
            why = '; '.join(r[1] for r in res if not r[0])
        return False, why
    kdf_fns = [b for b in F.bodies.values() if b.focus and b.fn.startswith(CASEP + '::') and b.calls(KDF)]
    R.floor('CaseP functions deriving a handshake key (Kdf::expand)', len(kdf_fns), 3)
    for b in sorted(kdf_fns, key=lambda b_: b_.fn):
        for t in b.calls(KDF):
            ok, why = from_transcript(b, t.d['a'][1])
            R.expect('P10', b.fn, 'the key derivation is salted with the transcript hash (current_tt_hash at this point of the handshake)', ok, why,
                     why + ': the key no longer depends on the messages exchanged so far, so a proof made with it is not bound to this transcript', b.where(t.bb))
            sec = prims.sources(b, t.d['a'][2], through=TT_THR)
            R.expect('P10', b.fn, 'the key derivation is keyed with the ECDH shared secret of this handshake', 'shared_secret:' + CASEP in src_fields(sec),
                     'ikm <= self.shared_secret', f'ikm sources {sorted(map(str, sec))[:6]}', b.where(t.bb))

    # e2: one owner of the transcript state
    allowed_w = {CASEP + '::start', CASEP + '::start_initiator', CASEP + '::new', CASEP + '::init'}
    R.writers_confined('P1', 'tt:' + CASEP, allowed_w, min_sites=1)
    for fn, callee in ((UPD_TT, 'crypto::Digest::update'), (CUR_TT, 'crypto::Digest::finish_current')):
        b = R.body(fn)
        cs = [t for t in b.calls() if any(n.endswith(callee.split('::')[-1]) for n in t.callee_names())]
        R.floor(f'{callee.split("::")[-1]} in {fn.split("::")[-1]}', len(cs), 1)
        s_ = prims.sources(b, cs[0].d['a'][0], through={'utils::init::Optional::as_opt_mut', 'utils::maybe::Maybe::as_opt_mut', 'core::option::Option::unwrap', 'core::option::Option::as_mut'})
        R.expect('P10', b.fn, f'{fn.split("::")[-1]} works on the handshake\'s own transcript state (self.tt)', 'tt:' + CASEP in src_fields(s_) or any(f.startswith('tt:') for f in src_fields(s_)),
                 'self.tt', f'sources {sorted(map(str, s_))[:6]}', b.where(cs[0].bb))
        other = [x for x in b.calls() if x.d['a'][1:] and x is cs[0]]
        if fn == UPD_TT:
            d_ = prims.sources(b, cs[0].d['a'][1])
            R.expect('P10', b.fn, 'update_tt hashes the bytes it is given', ('arg', 2) in d_, 'data <= parameter', f'sources {sorted(map(str, d_))[:6]}', b.where(cs[0].bb))

    # e3: Sigma1 (responder side) and Sigma2 (initiator side): hashed in by the function that consumes the message, on every Ok path
    st = R.body(CASEP + '::start')
    R.cut('P2', st, 'return Ok', ok_return_bbs(st), 'update_tt(Sigma1 request) ok', lambda: R.call_guard(st, UPD_TT))
    u = st.calls(UPD_TT)[0]
    R.expect('P10', st.fn, 'the responder hashes the received Sigma1 bytes', any(x[0] == 'arg' for x in prims.sources(st, u.d['a'][1])) and not src_consts(prims.sources(st, u.d['a'][1])),
             'update_tt(request)', f'sources {sorted(map(str, prims.sources(st, u.d["a"][1])))[:6]}', st.where(u.bb))
    R.expect('P3', st.fn, 'the Sigma1 hash handed to the Sigma2 key is taken after Sigma1 was hashed in', not prims.precedes(st, call_bbs(st, UPD_TT), call_bbs(st, CUR_TT)),
             'update_tt precedes current_tt_hash', 'current_tt_hash reachable before update_tt')
    if not responder_only:
        sd = R.body(CASEP + '::sigma2_decrypt')
        R.cut('P2', sd, 'return Ok', ok_return_bbs(sd), 'update_tt(raw Sigma2) ok', lambda: R.call_guard(sd, UPD_TT))
        u = sd.calls(UPD_TT)[0]
        R.expect('P10', sd.fn, 'the initiator hashes the received Sigma2 bytes', any(x[0] == 'arg' for x in prims.sources(sd, u.d['a'][1])) and not src_consts(prims.sources(sd, u.d['a'][1])),
                 'update_tt(raw_sigma2_payload)', f'sources {sorted(map(str, prims.sources(sd, u.d["a"][1])))[:6]}', sd.where(u.bb))
        R.expect('P3', sd.fn, 'S2K is derived from the transcript before Sigma2 itself is hashed in (Sigma1 only)', not prims.precedes(sd, call_bbs(sd, CUR_TT), call_bbs(sd, UPD_TT)),
                 'current_tt_hash precedes update_tt', 'update_tt reachable before current_tt_hash')

    # e4: the messages we send: hashed in whole (after the closing end_container) by the closure that builds them
    AS_SLICE = ('utils::storage::writebuf::WriteBuf::as_slice', 'tlv::write::TLVWrite::as_slice')
    def sent_sites(owner):
        out = []
        for b in F.nested(owner):
            for t in b.calls(UPD_TT):
                sc_ = src_calls(prims.sources(b, t.d['a'][1]))
                if any(c.endswith('::as_slice') for c in sc_):
                    out.append((b, t))
        return out
    want = [(RESP + '::handle_casesigma1', 1, 'Sigma2')] + ([] if responder_only else [(INIT + '::perform', 2, 'Sigma1, Sigma3')])
    for owner, n, what in want:
        sites = sent_sites(owner)
        R.floor(f'{what}: update_tt(tw.as_slice()) in {owner.split("::")[-1]}', len(sites), n)
        for b, t in sites:
            ends = [x.bb for x in b.calls() if any(nm.endswith('::end_container') for nm in x.callee_names())]
            R.expect('P3', b.fn, f'{what}: the message is hashed after its closing end_container (the whole message is in the transcript)',
                     bool(ends) and not prims.precedes(b, ends, [t.bb]), 'end_container precedes update_tt', 'update_tt reachable before the message is complete', b.where(t.bb))

    # e5: Sigma3 is in the transcript before the session keys are derived
    clo = closure_in(R, RESP + '::handle_casesigma3', ['CaseP::compute_session_keys'])
    ck = call_bbs(clo, CASEP + '::compute_session_keys')
    ut = clo.calls(UPD_TT)
    R.floor('update_tt in the Sigma3 closure', len(ut), 1)
    R.expect('P3', clo.fn, 'responder: Sigma3 is hashed in before the session keys are derived', not prims.precedes(clo, [t.bb for t in ut], ck),
             'update_tt precedes compute_session_keys on every path', 'compute_session_keys reachable without update_tt: the session keys do not cover Sigma3', clo.where(ck[0]))
    R.cut('P2', clo, 'compute_session_keys', ck, 'update_tt(Sigma3) ok', lambda: R.call_guard(clo, UPD_TT))
    d_ = src_calls(prims.sources(clo, ut[0].d['a'][1], through={'transport::exchange::RxMessage::payload', 'core::ops::deref::Deref::deref'}))
    R.expect('P10', clo.fn, 'responder: what is hashed is the received Sigma3 payload', any(c.endswith('::payload') or c.endswith('Exchange::rx') for c in d_),
             'update_tt(exchange.rx().payload())', f'data derives from {sorted(d_)[:6]}', clo.where(ut[0].bb))
    if not responder_only:
        co = async_body(R, INIT + '::perform')
        s3 = closure_in(R, INIT + '::perform', ['CaseP::sigma3_encrypt'])
        kc = closure_in(R, INIT + '::perform', ['CaseP::compute_session_keys'])
        def top_closure(b):
            # the closure built directly in perform's coroutine body that (transitively) contains b
            base = co.fn
            rest = b.fn[len(base):]
            first = rest.split('::')[1] if rest.startswith('::') else None
            return base + '::' + first if first else None
        s3_outer = [x for x in F.nested(INIT + '::perform') if x.fn != s3.fn and s3.fn.startswith(x.fn + '::') and any(t.bb is not None for t in x.calls(UPD_TT))]
        send_sites = closure_arg_sites(co, top_closure(s3_outer[0] if s3_outer else s3))
        key_sites = closure_arg_sites(co, top_closure(kc))
        R.floor('initiator: call receiving the Sigma3-building closure', len(send_sites), 1)
        R.floor('initiator: call receiving the session-key closure', len(key_sites), 1)
        R.expect('P3', co.fn, 'initiator: Sigma3 is built (and hashed in) before the session keys are derived',
                 not prims.precedes(co, [t.bb for t in send_sites], [t.bb for t in key_sites]), 'the Sigma3 send precedes compute_session_keys on every path',
                 'compute_session_keys reachable without having sent / hashed Sigma3', co.where(key_sites[0].bb))


def _reaches(body, frm, tos):
    r = prims.reach(body, body.succ[frm])
    return bool(set(tos) & r)


def _site_success(R, body, sites):
    e = set()
    for s in sites:
        tr = prims.track_result(R.facts, body, s)
        e |= tr.success
    return e


def _opt_guard(R, body, sites):
    """success edges (Some) of the Option carried inside the Ok of with_state(closure)"""
    e = set()
    for s in sites:
        tr = prims.track_result(R.facts, body, s, inner=1)
        e |= tr.success
    return e


def _identity_args(R, clo, callee, peer_node_arg, mode_arg, cert_call=None, fab_calls=(), cat_call=None, record=False):
    t = clo.calls(callee)[0]
    a = t.d['a']
    through = {'core::ops::try_trait::Try::branch', 'core::option::Option::unwrap', 'fmt::Try::into_result', 'core::num::nonzero::NonZero::new',
               'core::option::Option::expect'}
    peer = prims.sources(clo, a[peer_node_arg], through=through)
    mode = prims.sources(clo, a[mode_arg], through=through | {'cert::CertRef::get_cat_ids'})
    if record:
        okp = mentions(peer, 'peer_nodeid') and any('record' in x[1] for x in peer if x[0] in ('upvar',)) or \
            any(f.startswith('peer_nodeid:sc::case::resumption::ResumableSession') for f in src_fields(peer))
        okm = mentions(mode, 'fab_idx') and mentions(mode, 'peer_cat_ids')
        R.expect('P10', clo.fn, 'resumed session peer node id is the cached record\'s', okp and not [c for c in src_consts(peer) if c is not None],
                 'peer_nodeid <= record.peer_nodeid', f'sources {sorted(map(str, peer))[:6]}', clo.where(t.bb))
        R.expect('P10', clo.fn, 'resumed session fabric and CATs are the cached record\'s', okm,
                 'mode <= record.fab_idx, record.peer_cat_ids', f'sources {sorted(map(str, mode))[:8]}', clo.where(t.bb))
        return
    okp = cert_call in src_calls(peer) and not [c for c in src_consts(peer) if c is not None]
    R.expect('P10', clo.fn, 'session peer node id is the certificate\'s', okp,
             f'peer_nodeid <= {cert_call}', f'sources {sorted(map(str, peer))[:6]}', clo.where(t.bb))
    okm = bool(set(fab_calls) & src_calls(mode))
    R.expect('P10', clo.fn, 'session fabric index is the handshake\'s', okm,
             f'mode.fab_idx <= {sorted(fab_calls)}', f'sources {sorted(map(str, mode))[:8]}', clo.where(t.bb))
    # CATs: the local passed in the mode must have been filled by get_cat_ids of the certificate
    cats = clo.calls(cat_call)
    R.expect('P10', clo.fn, 'session CATs come from the certificate', len(cats) >= 1,
             f'{cat_call} called', f'{cat_call} not called', clo.where(t.bb))
