"""C20 - Unfinished or hostile handshakes cannot leak or exhaust node resources for good (structural clauses; quiescence not decided)."""
from common import (mentions, closure_in, async_body, closure_arg_sites, ok_return_bbs, call_bbs, named_local, src_calls,
                    src_fields, src_consts, bodies_of, result_used, field_bool_edges)
from facts import AnchorLost, op_place
import prims

EXPLANATION = """
Static rules over transport/session.rs, transport.rs, sc/{pase,case}/responder.rs; "after traffic stops every slot is free again" and
"a new legitimate handshake succeeds" are history/liveness statements and are not decided.
(a) reserved session slots are RAII: ReservedSession has a Drop impl whose state closure reaches Sessions::remove on the
`complete == false` edge and only clears `reserved` on the true edge; it is neither Clone nor Copy; core::mem::forget / ManuallyDrop
are never used in the functions that hold one; ReservedSession values are constructed only by reserve_now; Session.reserved is
written only by Session::new/init and that Drop; `complete` is written only by complete();
(b) single-occupancy rendezvous slots are guarded without a cancellation window: in Transport::resolve / browse no await lies
between the completion of the wait that takes the slot and the construction of the Mdns*Guard; the guards have Drop impls that write
Idle on the armed edge; `armed = false` is reached only after the answer wait completed;
(c) eviction never takes a session in use: Sessions::get_session_for_eviction's candidate test depends on `reserved` and on
`exchanges` (all None); (d) table-full answers busy: in handle_rx_packet the NoSpaceSessions arm for an unencrypted new-session
message reaches sc_write(Busy) + netw_send and then the eviction attempt; (e) PASE sessions are purged on CommissioningComplete and on
fail-safe expiry; PaseResponder::handle clears the in-progress marker on every failing path.
"""
CLAUSES = ['a: reserved session slots released on drop unless completed', 'b: rendezvous guards armed without an await gap and resetting every non-Idle state', 'c: eviction skips reserved sessions and sessions with exchanges',
           'd: busy answer when the session table is full', 'e: PASE sessions and the in-progress marker are purged; the establishment slot is re-armed by its owner only',
           'f: the dropped-exchange sweep reaches every dropped exchange; an expired session allocates no exchange slot']
NOT_DECIDED = ['quiescence: every slot free again after traffic stops', 'a new legitimate handshake succeeds as soon as one session is idle', 'table sizes from the smallest configuration upwards']
MIN_OBLIGATIONS = {'q': 22, 'd': 22, 'r': 22}

RS = 'transport::session::ReservedSession'
SESS = 'transport::session::Session'
SESSIONS = 'transport::session::Sessions'


def check(R):
    F = R.facts
    # ---- a --------------------------------------------------------------------
    with R.clause('a'):
        R.expect('P5', RS, 'ReservedSession has a Drop impl', F.has_impl('core::ops::drop::Drop', RS), 'impl Drop', 'no Drop impl')
        R.expect('P5', RS, 'ReservedSession is neither Clone nor Copy', not F.has_impl('core::clone::Clone', RS) and not F.has_impl('core::marker::Copy', RS), 'ok', 'Clone/Copy')
        dc = closure_in(R, '<' + RS + ' as core::ops::drop::Drop>::drop', ['Sessions::remove'])
        from common import path_bool_edges, field_bool_edges, closure_arg_sites
        # the `complete` test may sit in the state closure (older shape) or in Drop::drop itself, around the call that runs the closure
        te, fe = path_bool_edges(dc, 'complete')
        wb_, rm = dc, call_bbs(dc, SESSIONS + '::remove')
        if not (te and fe):
            dfn = R.body('<' + RS + ' as core::ops::drop::Drop>::drop')
            te, fe = field_bool_edges(dfn, 'complete:' + RS)
            wb_, rm = dfn, [t.bb for t in closure_arg_sites(dfn, dc.fn)]
            R.expect('P3', dc.fn, 'the state closure of Drop removes the slot on every path', not prims.precedes(dc, call_bbs(dc, SESSIONS + '::remove'), dc.ret_blocks()), 'sessions.remove(id) unconditional', 'a path through the closure keeps the slot')
        R.expect('P2', wb_.fn, 'Drop branches on `complete`', bool(te) and bool(fe), f'{sorted(te)} / {sorted(fe)}', 'no test of `complete`')
        bad = prims.always_followed_by(wb_, [e[1] for e in fe], rm) if rm else ['no removal']
        R.expect('P3', wb_.fn, 'an uncompleted reservation always removes its session slot', bool(fe) and not bad, 'complete == false -> sessions.remove(id)', 'a path through the not-completed edge keeps the slot')
        clr = [i for i, j, s in dc.field_writes('reserved:' + SESS)]
        if clr:
            R.cut('P2', dc, 'turn the reservation into a usable session (reserved = false)', clr, 'complete == true', te)
        R.cut('P2', wb_, 'remove the session slot', rm, 'the reservation was not completed (complete == false)', fe)
        s = prims.sources(dc, dc.calls(SESSIONS + '::remove')[0].d['a'][1])
        R.expect('P10', dc.fn, 'the slot removed is the reserved one', mentions(s, 'id'), 'sessions.remove(self.id)', f'{sorted(map(str, s))[:4]}')
        R.writers_confined('P1', 'reserved:' + SESS, {SESS + '::new', SESS + '::init', '<' + RS + ' as core::ops::drop::Drop>::drop', RS + '::complete'}, min_sites=1)
        R.writers_confined('P1', 'complete:' + RS, {RS + '::complete'}, min_sites=1)
        R.constructors_confined('P1', RS, {RS + '::reserve_now'})
        holders = [b for b in F.bodies.values() if b.focus and b.locals and any(l[0].startswith(RS) for l in b.locals)]
        R.floor('functions holding a ReservedSession', len(holders), 6)
        leak = [b.fn for b in holders if any(c in ('core::mem::forget',) or 'ManuallyDrop' in c for c in b.calls_summary)]
        R.expect('P1', RS, 'no holder of a ReservedSession uses mem::forget / ManuallyDrop', not leak, f'{len(holders)} holders checked', f'{leak}')
        rn = R.body(RS + '::reserve_now')
        # the slot is created with reserved = true
        addc = [b for b in [rn] + F.nested(rn.fn) if SESSIONS + '::add' in b.calls_summary]
        R.floor('Sessions::add in reserve_now', len(addc), 1)
        t = addc[0].calls(SESSIONS + '::add')[0]
        R.expect('P6', addc[0].fn, 'a reserved slot is created with reserved = true', t.d['a'][2].get('k', {}).get('v') == 1, 'sessions.add(_, true, ..)', str(t.d['a'][2]))

    # ---- b --------------------------------------------------------------------
    with R.clause('b'):
        for fn, guard in (('transport::Transport::resolve', 'transport::MdnsResolveGuard'), ('transport::Transport::browse_commissionable', 'transport::MdnsBrowseGuard')):
            R.expect('P5', guard, f'{guard.split("::")[-1]} has a Drop impl', F.has_impl('core::ops::drop::Drop', guard), 'impl Drop', 'no Drop')
            bs = [b for b in F.bodies.values() if b.focus and b.kind == 'coroutine' and b.aggregates(guard)]
            R.floor(f'coroutine constructing {guard}', len(bs), 1)
            co = bs[0]
            gb = [i for i, j, s in co.aggregates(guard)]
            for i, j, s in co.aggregates(guard):
                fields = dict(zip(s[1].get('fields', ()), s[1]['a']))
                R.expect('P6', co.fn, 'the guard starts armed', fields.get('armed', {}).get('k', {}).get('v') == 1, 'armed: true', str(fields.get('armed')))
            waits = [t for t in co.calls() if t.d.get('f', '').endswith('Signal::wait')]
            R.floor('Signal::wait in ' + co.fn, len(waits), 2)
            first = min(waits, key=lambda t: t.line)
            tr = prims.track_result(F, co, first)
            ready = [i for i, j, s in co.stmts() if s[1].get('op') == 'use' and op_place(s[1]['a'][0]) and '@Ready' in op_place(s[1]['a'][0]) and op_place(s[1]['a'][0])[0] in tr.locals]
            R.floor('completion point of the slot-taking wait', len(ready), 1)
            ys = prims.yields_between(co, ready, gb)
            R.expect('P3', co.fn, 'no await between taking the rendezvous slot and arming its guard', not ys, 'guard constructed right after the wait completes',
                     f'await at {[co.where(y) for y in ys]}: a cancellation there leaves the slot occupied forever')
            R.expect('P3', co.fn, 'the guard is constructed after the slot was taken, not before', not prims.precedes(co, [first.bb], gb), 'wait precedes guard', 'guard before wait')
            dis = [i for i, j, s in co.stmts() if any(isinstance(x, str) and x.startswith('.armed:' + guard) for x in s[0][1:]) and s[1].get('op') == 'use' and s[1]['a'][0].get('k', {}).get('v') == 0]
            if dis:
                second = [t for t in waits if t.bb != first.bb]
                R.expect('P3', co.fn, 'the guard is only disarmed after the answer wait / select was created', not prims.precedes(co, [t.bb for t in second], dis), 'ok', 'disarmed before waiting')
            db = bodies_of(F, f'<{guard} as core::ops::drop::Drop>::drop')
            R.floor(f'{guard} drop bodies', len(db), 1)
            d0 = [b for b in db if b.kind != 'closure'][0]
            te, fe = field_bool_edges(d0, 'armed:' + guard)
            mods = [t.bb for t in d0.calls() if t.d.get('f', '').endswith('Signal::modify')]
            R.expect('P3', d0.fn, 'an armed guard always resets the slot on drop', bool(te) and bool(mods) and not prims.always_followed_by(d0, [e[1] for e in te], mods), 'armed -> signal.modify(.. = Idle)', 'armed path skips the reset')
            # ... whatever is in it: a deposited answer that the cancelled waiter never consumed (Resolved / Found) occupies the slot just
            # like an outstanding request - the closure leaves the state alone only on the `already Idle` edge
            st_adt = guard.replace('transport::', 'transport::network::mdns::').replace('Guard', 'State')
            for dc in [b for b in db if b.kind == 'closure']:
                wr = sorted({i for i, j, st in dc.stmts() if st[0][0] == 2 and st[0][1:] == ['*'] and not dc.is_cleanup(i)})
                R.floor(f'`*state = ..` in the drop closure of {guard}', len(wr), 1)
                idle, other = prims.enum_local_edges(F, dc, lambda pl: pl[0] == 2, st_adt, ['Idle'])
                r = prims.reach(dc, (0,), cut_edges=idle, cut_blocks=set(wr))
                R.expect('P3', dc.fn, 'every state other than Idle is reset to Idle when the guard drops', bool(idle) and not (set(dc.ret_blocks()) & r), 'only the Idle edge skips the reset',
                         'a non-Idle state (a deposited but unconsumed answer) can leave the closure untouched: the slot is never released and every later waiter blocks forever')
                vals = {st[1].get('var') for i, j, st in dc.stmts() if st[1].get('op') == 'agg' and st[1].get('adt') == st_adt}
                R.expect('P6', dc.fn, 'the slot is reset to Idle', vals == {'Idle'}, 'Idle', f'{sorted(vals)}')

    # ---- c --------------------------------------------------------------------
    with R.clause('c'):
        ge = R.body(SESSIONS + '::get_session_for_eviction')
        # every place that accepts a session as eviction candidate - the `Some(index)` assignment of a scan loop, or the `true` result of a
        # predicate closure handed to position / find / filter - is cut by both tests (whatever the local variables are called)
        n_acc = 0
        for b in [ge] + list(F.nested(ge.fn)):
            reads = any(isinstance(x, str) and x.split(':')[0] in ('.reserved', '.expired', '.last_use') and x.endswith(':' + SESS)
                        for i_, j_, st in b.stmts() for pl in ([st[0]] + [op_place(a) or [] for a in st[1].get('a', ())] + [st[1].get('pl') or []]) for x in pl[1:])
            if not reads:
                continue
            # a def of the result whose VALUE is the test itself (`.. && !s.reserved`, `.. && exchanges.iter().all(..)`) needs no branch
            acc_res = acc_all = None
            if b.kind == 'closure' and b.rec.get('ret') == 'bool':
                acc_res, acc_all = [], []
                for (bb, kind, pl) in prims.result_defs(b):
                    if kind == 'const' and pl == 0:
                        continue
                    is_not_reserved = kind == 'expr' and pl.get('op') == 'un' and pl.get('u') == 'Not' and any(x[0] == 'field' and x[1] == 'reserved:' + SESS for x in prims.sources(b, pl['a'][0]))
                    is_all = kind == 'call' and pl.get('f', '').endswith('Iterator::all') and mentions(prims.sources(b, pl['a'][0], through={'core::slice::<impl [T]>::iter'}), 'exchanges')
                    if not is_not_reserved:
                        acc_res.append(bb)
                    if not is_all:
                        acc_all.append(bb)
                acc = sorted(set(acc_res) | set(acc_all))
            else:
                acc = sorted({i_ for i_, j_, st in b.stmts() if st[1].get('op') == 'agg' and st[1].get('var') == 'Some' and len(st[0]) == 1
                              and b.local_ty(st[0][0]) in ('core::option::Option<usize>',) and not b.is_cleanup(i_)})
                acc_res = acc_all = acc
            if not acc and not (b.kind == 'closure' and b.rec.get('ret') == 'bool'):
                continue
            n_acc += 1
            te, fe = field_bool_edges(b, 'reserved:' + SESS)
            if acc_res:
                R.cut('P2', b, 'accept a session as eviction candidate', acc_res, 'the session is not reserved', fe)
            else:
                R.ok('P2', b.fn, 'accept a session as eviction candidate cut-by the session is not reserved', 'the accepting result is `!reserved` itself')
            alls = [t for t in b.calls() if t.d.get('f', '').endswith('Iterator::all') and mentions(prims.sources(b, t.d['a'][0], through={'core::slice::<impl [T]>::iter'}), 'exchanges')]

            def no_exch(b=b, alls=alls):
                if not alls:
                    from facts import GuardMissing
                    raise GuardMissing(f'{b.fn}: no exchanges.iter().all(..) test')
                e = set()
                for t in alls:
                    e |= prims.track_result(F, b, t).success
                return e
            if acc_all:
                R.cut('P2', b, 'accept a session as eviction candidate', acc_all, 'the session has no live exchange (exchanges.iter().all(is_none))', no_exch)
            else:
                R.ok('P2', b.fn, 'accept a session as eviction candidate cut-by the session has no live exchange (exchanges.iter().all(is_none))', 'the accepting result is the all(is_none) value itself')
        R.floor('places that accept an eviction candidate', n_acc, 1)

    # ---- d --------------------------------------------------------------------
    with R.clause('d'):
        hr = 'transport::TransportRunner::handle_rx_packet'
        co = async_body(R, hr)
        busy = [b for b in F.nested(hr) if b.kind == 'closure' and any(s[1].get('op') == 'agg' and s[1].get('adt') == 'sc::SCStatusCodes' and s[1].get('var') == 'Busy' for i, j, s in b.stmts())] + \
               [b for b in F.nested(hr) if b.kind == 'closure' and any(('agg', 'sc::SCStatusCodes', 'Busy') in prims.sources(b, a) for t in b.calls('sc::sc_write') for a in t.d['a'])]
        R.floor('closure writing SCStatusCodes::Busy', len(busy), 1)
        wsites = closure_arg_sites(co, busy[0].fn)
        R.floor('write_packet(Busy) site', len(wsites), 1)
        sends = [t.bb for t in co.calls('transport::TransportRunner::netw_send')]
        succ = set()
        for t in wsites:
            succ |= prims.track_result(F, co, t).success
        bad = prims.always_followed_by(co, [e[1] for e in succ], sends)
        R.expect('P3', co.fn, 'a written Busy answer is always sent', bool(succ) and not bad, 'write_packet(Busy) ok -> netw_send', 'a path skips netw_send')
        ev = [t.bb for t in co.calls('transport::TransportRunner::write_evict_some_session_packet')]
        R.expect('P3', co.fn, 'after answering Busy the node tries to evict an idle session', bool(ev) and not prims.precedes(co, [w.bb for w in wsites], ev), 'Busy precedes write_evict_some_session_packet', 'eviction missing')
        code_t = co.calls('error::Error::code')
        ns_edges = set()
        for t in code_t:
            ns_edges |= prims.track_result(F, co, t, success_variants=['NoSpaceSessions']).success
        excl = set()
        for nm in ('transport::plain_hdr::PlainHdr::is_encrypted',):
            for t in co.calls(nm):
                excl |= prims.track_result(F, co, t).success
        for nm in ('transport::exchange::MessageMeta::is_new_session',):
            for t in co.calls(nm):
                excl |= prims.track_result(F, co, t).failure
        wb = {w.bb for w in wsites}
        bad = [co.where(f) for (f, to) in ns_edges if set(co.ret_blocks()) & prims.reach(co, (to,), cut_edges=excl, cut_blocks=wb)]
        R.expect('P3', co.fn, 'NoSpaceSessions for an unencrypted new-session message always answers Busy', bool(ns_edges) and bool(excl) and not bad, 'NoSpaceSessions arm -> write_packet(Busy)',
                 f'from {bad} the function returns without answering Busy')

    # ---- e --------------------------------------------------------------------
    with R.clause('e'):
        GC = '<dm::clusters::gen_comm::GenCommHandler as dm::clusters::decl::general_commissioning::ClusterHandler>::handle_commissioning_complete'
        cc = closure_in(R, GC, ['FailSafe::disarm'])
        R.expect('P3', cc.fn, 'CommissioningComplete drops the PASE sessions', SESSIONS + '::remove_pase' in cc.calls_summary and not prims.always_followed_by(cc, [e[1] for e in R.call_guard(cc, 'failsafe::FailSafe::disarm')], call_bbs(cc, SESSIONS + '::remove_pase'), exits=ok_return_bbs(cc)),
                 'disarm ok -> remove_pase', 'remove_pase skipped on the success path')
        ex = R.body('failsafe::FailSafe::expire')
        R.expect('P3', ex.fn, 'fail-safe expiry drops the PASE sessions', SESSIONS + '::remove_pase' in ex.calls_summary, 'remove_pase', 'missing')
        rp = R.body(SESSIONS + '::remove_pase')
        pc = [b for b in F.nested(rp.fn)]
        R.expect('P9', rp.fn, 'remove_pase selects by session mode Pase', any(any(s[1].get('op') == 'discr' and s[1].get('adt') == 'transport::session::SessionMode' for i, j, s in b.stmts()) for b in pc), 'matches!(mode, Pase)', 'mode not tested')
        ph = async_body(R, 'sc::pase::responder::PaseResponder::handle')
        rec = closure_in(R, 'sc::pase::responder::PaseResponder::handle', ['Pase::record_pake_failure'])
        rpf = R.body('sc::pase::Pase::record_pake_failure')
        w = [i for i, j, s in rpf.field_writes('session_timeout:sc::pase::Pase')]
        R.expect('P3', rpf.fn, 'a failed handshake always clears the in-progress marker', bool(w) and not prims.precedes(rpf, w, rpf.ret_blocks()), 'session_timeout = None first', 'a path keeps the marker')
        hi = async_body(R, 'sc::pase::responder::PaseResponder::handle_inner')
        clr = call_bbs(hi, 'sc::pase::responder::PaseResponder::clear_session_timeout')
        R.floor('clear_session_timeout in handle_inner', len(clr), 1)
        # an abandoned establishment slot frees itself when its expiry passes - provided nobody but its owner can push the expiry out
        from C02 import slot_owner_rule
        slot_owner_rule(R)

    # ---- f --------------------------------------------------------------------
    with R.clause('f'):
        # exchange slots of dropped exchanges are freed: the sweep's two lookups cover every dropped exchange (shared with C10-c2),
        # and on both arms the slot is released (the session is evicted, or exchanges[exch_index] = None)
        from C10 import dropped_partition_rule
        dropped_partition_rule(R)
        # a session that is expired (kept only so that the exchange that expired it can answer) takes no new exchange: the slot is never
        # allocated - refusing AFTER add_exch leaves an AcceptPending exchange nobody will ever accept, and pins the session for good
        SESS_ = 'transport::session::Session'
        pr_ = R.body(SESS_ + '::post_recv')
        te_, fe_ = field_bool_edges(pr_, 'expired:' + SESS_)
        R.cut('P2', pr_, 'allocate an exchange slot for a new inbound exchange (add_exch)', call_bbs(pr_, SESS_ + '::add_exch'), 'the session is not expired', fe_)

