"""Shared helpers for the per-property rule files."""
from facts import AnchorLost, op_place, op_local
import os
import prims

RESULT = 'core::result::Result'

# apply-once combinators: call their closure argument exactly once and return its value
APPLY_ONCE = (
    'Matter::with_state',
    'transport::exchange::Exchange::with_state',
    'transport::exchange::Exchange::with_state_ex',
    'transport::exchange::Exchange::with_session',
)


def closure_in(R, root_fn, must_call, kind=None):
    """The unique closure nested (at any depth) in root_fn whose own body calls
    every def-path in must_call (suffix match).  Located by content, never by
    closure index."""
    F = R.facts
    found = []
    for b in F.nested(root_fn):
        if kind and b.kind != kind:
            continue
        if all(any(c == m or c.endswith('::' + m) for c in b.calls_summary) for m in must_call):
            found.append(b)
    if not found:
        raise AnchorLost(f"no closure under {root_fn} calls {must_call}")
    if len(found) > 1:
        # prefer the innermost (deepest path) - outer closures only *construct* inner ones
        found.sort(key=lambda b: -b.fn.count('{closure#'))
        deepest = found[0].fn.count('{closure#')
        found = [b for b in found if b.fn.count('{closure#') == deepest]
        if len(found) > 1:
            raise AnchorLost(f"{len(found)} closures under {root_fn} call {must_call}: {[b.fn for b in found]}")
    return found[0]


def async_body(R, fn):
    """the coroutine body of an `async fn`"""
    F = R.facts
    b = F.bodies.get(fn + '::{closure#0}')
    if b is None or b.kind != 'coroutine':
        raise AnchorLost(f"{fn} is not an async fn (no coroutine body)")
    if not b.focus:
        raise AnchorLost(f"{fn}: call-only facts")
    return b


def closure_arg_sites(body, closure_fn, callee_names=None):
    """Call sites in `body` that receive the closure `closure_fn` (constructed in body) as an argument."""
    locs = set()
    for i, j, s, clo in body.closures_built():
        if clo == closure_fn and len(s[0]) == 1:
            locs.add(s[0][0])
    # follow moves / refs
    changed = True
    while changed:
        changed = False
        for i, j, s in body.stmts():
            pl, rv = s[0], s[1]
            if len(pl) != 1 or pl[0] in locs:
                continue
            src = None
            if rv.get('op') == 'use':
                src = op_place(rv['a'][0])
            elif rv.get('op') == 'ref':
                src = rv['pl']
            if src and src[0] in locs and all(p == '*' for p in src[1:]):
                locs.add(pl[0])
                changed = True
    out = []
    for t in body.calls():
        if callee_names and not any(n in callee_names for n in t.callee_names()):
            continue
        for a in t.d['a']:
            p = op_place(a)
            if p and p[0] in locs:
                out.append(t)
                break
    return out


def ok_return_bbs(body, variant='Ok', adt=RESULT):
    """Blocks constructing `Ok(..)` (or adt::variant) that flows to the return place."""
    # locals that flow to _0 through plain moves
    to_ret = {0}
    changed = True
    while changed:
        changed = False
        for i, j, s in body.stmts():
            pl, rv = s[0], s[1]
            if len(pl) == 1 and pl[0] in to_ret and rv.get('op') == 'use':
                src = op_place(rv['a'][0])
                if src and len(src) == 1 and src[0] not in to_ret:
                    to_ret.add(src[0])
                    changed = True
    out = []
    for i, j, s in body.stmts():
        pl, rv = s[0], s[1]
        if rv.get('op') == 'agg' and rv.get('var') == variant and rv.get('adt') == adt and len(pl) == 1 and pl[0] in to_ret:
            out.append(i)
    return out


def variant_bbs(body, adt, variant):
    return [i for i, j, s in body.aggregates(adt, variant)]


def call_bbs(body, *names, min_sites=1):
    sites = body.calls(*names)
    if len(sites) < min_sites:
        raise AnchorLost(f"{body.fn}: expected >= {min_sites} call(s) of {names}, found {len(sites)}")
    return [s.bb for s in sites]


def _local_sig(body, l):
    """what a user variable IS, independent of what it is called: declared type + the callees, fields and constants of its backward slice"""
    s = prims.sources(body, l)
    return [body.local_ty(l), sorted(src_calls(s)), sorted(src_fields(s)), sorted(str(c) for c in src_consts(s))]


_ROLES = None


def _roles():
    global _ROLES
    if _ROLES is None:
        import json
        p = os.path.join(os.path.dirname(os.path.abspath(__file__)), 'local_roles.json')
        _ROLES = json.load(open(p)) if os.path.exists(p) else {}
    return _ROLES


def named_local(body, name):
    """The user variable(s) called `name` in body.  When no variable has that name any more (a rename), fall back to the variables
    whose signature (type + slice callees / fields / constants) equals the one recorded for (function, name) on the audited tree
    in rules/local_roles.json (tools/gen_local_roles.py): a rename alone does not lose the anchor."""
    ls = [i for i, l in enumerate(body.locals) if len(l) > 1 and l[1] == name]
    if not ls:
        want = _roles().get(f'{body.fn}|{name}')
        if want:
            ls = [i for i, l in enumerate(body.locals) if len(l) > 1 and l[1] and i > body.argc and _local_sig(body, i) in want]
    if not ls:
        raise AnchorLost(f"{body.fn}: no local named {name} (and no variable with its recorded signature)")
    if os.environ.get('VERIF_TRACE_NAMED'):
        import json
        import sys
        print('NAMED ' + json.dumps({'k': f'{body.fn}|{name}', 'sigs': [_local_sig(body, l) for l in ls]}), file=sys.stderr)
    return ls


def has_source(srcs, kind, pred):
    return any(s[0] == kind and pred(s[1]) for s in srcs)


def src_calls(srcs):
    return {s[1] for s in srcs if s[0] == 'call'}


def src_fields(srcs):
    return {s[1] for s in srcs if s[0] == 'field'}


def src_consts(srcs):
    return {s[1] for s in srcs if s[0] == 'const'}


def result_used(R, rule, body, names, min_sites=1, allow_returned=True, inner=0):
    """P8: the result of every call of `names` in body reaches a branch, a `?`
    or the function's own return value."""
    sites = body.calls(*names)
    if len(sites) < min_sites:
        raise AnchorLost(f"{body.fn}: expected >= {min_sites} call(s) of {names}, found {len(sites)}")
    for s in sites:
        try:
            tr = prims.track_result(R.facts, body, s)
        except Exception as e:  # projected destinations etc.
            R.fail(rule, body.fn, f"result of {names[0]} used", f"cannot follow result: {e}", where=body.where(s.bb))
            continue
        used = bool(tr.success or tr.failure) or (allow_returned and tr.returned) or bool(tr.passed_to)
        R.expect(rule, body.fn, f"result of {names[0]} at {body.where(s.bb)} is tested or propagated", used,
                 f"branches={sorted(tr.switches)} returned={tr.returned}",
                 f"the result of {names[0]} is dropped (no branch, no `?`, not returned)", where=body.where(s.bb))
    R.sites += len(sites)


def mentions(srcs, name):
    """the slice reads a struct field / captured path component called `name`"""
    for s in srcs:
        if s[0] == 'field' and s[1].split(':')[0] == name:
            return True
        if s[0] == 'upvar' and (s[1] == name or s[1].endswith('.' + name) or ('.' + name + '.') in s[1] or s[1].startswith(name + '.')):
            return True
    return False


def false_edges_of_cmp(body, op, lhs_pred, rhs_pred):
    e = set()
    for bb, te, fe in prims.cmp_guard_edges(body, op, lhs_pred, rhs_pred):
        e |= fe
    return e


def true_edges_of_cmp(body, op, lhs_pred, rhs_pred):
    e = set()
    for bb, te, fe in prims.cmp_guard_edges(body, op, lhs_pred, rhs_pred):
        e |= te
    return e


def agg_flowing_to(body, locals_, variant, adt=None):
    """blocks constructing `variant(..)` whose value is moved (possibly through temporaries) into one of locals_"""
    tgt = set(locals_)
    changed = True
    while changed:
        changed = False
        for i, j, s in body.stmts():
            pl, rv = s[0], s[1]
            if len(pl) == 1 and pl[0] in tgt and rv.get('op') == 'use':
                src = op_place(rv['a'][0])
                if src and len(src) == 1 and src[0] not in tgt:
                    tgt.add(src[0])
                    changed = True
    return [i for i, j, s in body.stmts() if s[1].get('op') == 'agg' and s[1].get('var') == variant
            and (adt is None or s[1].get('adt') == adt) and len(s[0]) == 1 and s[0][0] in tgt]


def field_bool_edges(body, field):
    """(true_edges, false_edges) of branches on a bool struct field 'name:Adt' read in body"""
    key = '.' + field
    te, fe = set(), set()
    for i, j, s in body.stmts():
        pl, rv = s[0], s[1]
        if rv.get('op') == 'use' and len(pl) == 1:
            src = op_place(rv['a'][0])
            if src and any(x == key for x in src[1:] if isinstance(x, str)) and src[-1] == key:
                t, f = prims.bool_local_edges(body, pl[0])
                te |= t
                fe |= f
    for i, blk in enumerate(body.bbs):
        t = blk['t']
        if t['t'] == 'switch' and not blk.get('c'):
            p = op_place(t['on'])
            if p and len(p) > 1 and p[-1] == key:
                for v, b in t['tg']:
                    (fe if v == 0 else te).add((i, b))
                te.add((i, t['else']))
    return te, fe


def bodies_of(F, owner):
    """the named function's own body plus its nested closures/coroutines (focus only)"""
    return [b for b in F.bodies.values() if b.focus and F.owner_fn(b.fn) == owner]


def path_bool_edges(body, name):
    """(true, false) edges of branches on a bool read from a place whose last named component (struct field or captured
    path such as `*self.complete`) is `name`"""
    def hit(pl):
        comps = [x for x in pl[1:] if isinstance(x, str) and x.startswith('.')]
        if not comps:
            return False
        last = comps[-1][1:]
        last = last[:-2] if last.endswith(':^') else last.split(':')[0]
        return last == name or last.endswith('.' + name)
    te, fe = set(), set()
    for i, j, s in body.stmts():
        pl, rv = s[0], s[1]
        if rv.get('op') == 'use' and len(pl) == 1:
            src = op_place(rv['a'][0])
            if src and hit(src):
                t, f = prims.bool_local_edges(body, pl[0])
                te |= t
                fe |= f
    for i, blk in enumerate(body.bbs):
        t = blk['t']
        if t['t'] == 'switch' and not blk.get('c'):
            p = op_place(t['on'])
            if p and hit(p):
                for v, b in t['tg']:
                    (fe if v == 0 else te).add((i, b))
                te.add((i, t['else']))
    return te, fe


def equality_tests(F, body, through=()):
    """every equality test in body: `a == b` as MIR BinaryOp Eq/Ne or as a PartialEq::eq/ne call.
    Yields (bb, negated, sources(a), sources(b), true_edges, false_edges) with edges meaning `a == b` true / false."""
    out = []
    for (bb, j, op, a, b, dest) in prims.compare_sites(body, ops=('Eq', 'Ne')):
        te, fe = prims.bool_local_edges(body, dest)
        if op == 'Ne':
            te, fe = fe, te
        out.append((bb, op == 'Ne', prims.sources(body, a, through=through), prims.sources(body, b, through=through), te, fe))
    for t in body.calls('core::cmp::PartialEq::eq', 'core::cmp::PartialEq::ne'):
        tr = prims.track_result(F, body, t)
        te, fe = tr.success, tr.failure
        neg = t.d['f'].endswith('::ne')
        if neg:
            te, fe = fe, te
        out.append((t.bb, neg, prims.sources(body, t.d['a'][0], through=through), prims.sources(body, t.d['a'][1], through=through), te, fe))
    return out


def role_local(body, name, ty=None, calls=None, fields=None, consts=None, through=()):
    """The locals playing a role in a rule, found by WHAT THEY ARE rather than by what they are called: declared type `ty`
    (exact, or prefix when it ends with '*') and a backward slice that contains a call to one of `calls` (suffix match) /
    a read of one of `fields` ('name' of 'name:Adt') / one of the constants `consts`.  The source name is only the fall-back
    when the description matches nothing (so a rename does not lose the anchor, and a reshaped definition does not either)."""
    def ty_ok(t):
        if ty is None:
            return True
        return t.startswith(ty[:-1]) if ty.endswith('*') else t == ty
    out = []
    for l in range(len(body.locals or ())):
        if l <= body.argc or not ty_ok(body.local_ty(l)):
            continue
        if not body.local_name(l):
            continue   # roles are user variables; compiler temporaries are reached through them
        s = prims.sources(body, l, through=through)
        if calls is not None and not any(c.endswith(tuple(calls)) for c in src_calls(s)):
            continue
        if fields is not None and not any(f.split(':')[0] in fields for f in src_fields(s)):
            continue
        if consts is not None and not (set(consts) & set(src_consts(s))):
            continue
        out.append(l)
    if out:
        return out
    return named_local(body, name)


def complete_removal_scan(R, rule, body, key_field, what):
    """'drop every element whose <key_field> matches' - decided for the shapes the repository uses, undecided (AnchorLost) otherwise:
    (A) retain / retain_mut with a predicate that reads key_field; (B) search-and-remove loops without a running index (position() then
    remove / swap_remove, search restarted each time); (C) an index loop with remove(i) / swap_remove(i): the index must not advance on
    the iteration that removed - the element that moved into slot i would be skipped."""
    F = R.facts
    import prims
    bodies = [body] + list(F.nested(body.fn))
    reads_key = any(prims.field_read_locals(b, key_field) or any(isinstance(x, str) and x == '.' + key_field for i, j, st in b.stmts() for x in (st[1].get('pl') or [])[1:]) for b in bodies)
    retains = [t for t in body.calls() if any(n.endswith(('::retain', '::retain_mut')) for n in t.callee_names())]
    removes = [t for t in body.calls() if any(n.endswith(('::remove', '::swap_remove')) for n in t.callee_names())]
    if retains:
        R.expect(rule, body.fn, what, reads_key, f'retain(..) with a predicate on {key_field.split(":")[0]}', f'retain(..) whose predicate does not read {key_field}', body.where(retains[0].bb))
        return
    if not removes:
        raise AnchorLost(f'{body.fn}: neither retain nor remove/swap_remove - removal scan of an unknown shape')
    bad = []
    for t in removes:
        if len(t.d['a']) < 2:
            continue
        idx = op_place(t.d['a'][1])
        if idx is None:
            continue
        # the variable(s) the index operand is a copy of
        roots, work = set(), [idx[0]]
        while work:
            l = work.pop()
            if l in roots:
                continue
            roots.add(l)
            for (bb, i, kind, payload) in body.defs.get(l, ()):
                if kind == 'assign' and payload[1].get('op') == 'use' and op_place(payload[1]['a'][0]):
                    work.append(op_place(payload[1]['a'][0])[0])
        incs = set()
        for i, j, st in body.stmts():
            rv = st[1]
            if rv.get('op') == 'bin' and rv.get('b') in ('Add', 'AddWithOverflow') and op_place(rv['a'][0]) and op_place(rv['a'][0])[0] in roots and not body.is_cleanup(i):
                incs.add(i)
        if not incs:
            continue    # shape B: no running index
        cmps = {c[0] for c in prims.compare_sites(body, ops=('Lt', 'Le', 'Gt', 'Ge', 'Ne', 'Eq'))
                if (op_place(c[3]) and op_place(c[3])[0] in roots) or (op_place(c[4]) and op_place(c[4])[0] in roots)}
        # also comparisons on a copy of the index
        for c in prims.compare_sites(body, ops=('Lt', 'Le', 'Gt', 'Ge', 'Ne', 'Eq')):
            for o in (c[3], c[4]):
                pl = op_place(o)
                if pl:
                    for (bb, i, kind, payload) in body.defs.get(pl[0], ()):
                        if kind == 'assign' and payload[1].get('op') == 'use' and op_place(payload[1]['a'][0]) and op_place(payload[1]['a'][0])[0] in roots:
                            cmps.add(c[0])
        r = prims.reach(body, body.succ[t.bb], cut_blocks=cmps)
        hit = sorted(incs & r)
        if hit:
            bad.append((t.bb, hit[0]))
    R.expect(rule, body.fn, what, reads_key and not bad, f'{len(removes)} remove site(s); the index does not advance on an iteration that removed (or there is no running index)',
             (f'after the removal at {body.where(bad[0][0])} the index is advanced at {body.where(bad[0][1])} before it is compared again: the element that moved into the freed slot is '
              'skipped, every second one of a run of matching elements survives') if bad else f'the scan does not read {key_field}', body.where(removes[0].bb))
