#!/bin/bash
# Build the extractor and warm the fact cache for /repo's current tree (offline).
set -e
cd "$(dirname "$0")"
export CARGO_NET_OFFLINE=true
(cd engine/rsm-facts && cargo build --release --offline 2>&1 | tail -2)
mkdir -p .cache evidence
python3 rules/extract.py q
